"""closed-initialiser evaluator (constant folder) for module-level code.
Never imports or executes repo code with the Python VM: walks the AST and applies a
whitelist of pure operations to constants.  Unknown construct -> Unfoldable (fail closed).
"""
import ast, re, operator


class Unfoldable(Exception):
    pass


class RegexConst:
    def __init__(self, pattern, flags=0):
        self.pattern = pattern; self.flags = flags
    def __repr__(self): return 'RegexConst(%r)' % self.pattern


class ObjConst:
    """an object seen only through its class-level constants (self.X where X is assigned a constant in the class body)"""
    def __init__(self, attrs, methods=None):
        self.attrs = attrs
        self.methods = methods or {}       # name -> FuncConst, called with the object as first argument


class FuncConst:
    def __init__(self, node, env): self.node = node; self.env = env


class _Return(Exception):
    def __init__(self, v): self.v = v


class _Raise(Exception):
    def __init__(self, name=None):
        Exception.__init__(self, name)
        self.name = name


class _Break(Exception):
    pass


class _Continue(Exception):
    pass


STR_METHODS = {'startswith', 'endswith', 'replace', 'join', 'lower', 'upper', 'split', 'strip',
               'lstrip', 'rstrip', 'format', 'count', 'find', 'rfind', 'index', 'title', 'isdigit'}
BUILTINS = {'len': len, 'tuple': tuple, 'list': list, 'dict': dict, 'max': max, 'min': min, 'sorted': sorted,
            'str': str, 'int': int, 'float': float, 'range': range, 'zip': zip, 'set': set, 'frozenset': frozenset,
            'enumerate': enumerate, 'sum': sum, 'abs': abs, 'bool': bool, 'repr': repr, 'any': any, 'all': all,
            'reversed': reversed, 'round': round, 'True': True, 'False': False, 'None': None, 'isinstance': isinstance,
            'divmod': divmod, 'bytes': bytes}
BINOPS = {ast.Add: operator.add, ast.Sub: operator.sub, ast.Mult: operator.mul, ast.Div: operator.truediv,
          ast.Mod: operator.mod, ast.FloorDiv: operator.floordiv, ast.Pow: operator.pow}
CMPOPS = {ast.Eq: operator.eq, ast.NotEq: operator.ne, ast.Lt: operator.lt, ast.LtE: operator.le,
          ast.Gt: operator.gt, ast.GtE: operator.ge, ast.In: lambda a, b: a in b,
          ast.NotIn: lambda a, b: a not in b, ast.Is: operator.is_, ast.IsNot: operator.is_not}


class LazyImport:
    def __init__(self, level, module, name):
        self.level = level; self.module = module; self.name = name


import decimal as _decimal, math as _math, fractions as _fractions, datetime as _datetime, collections as _collections
PURE_EXTERNAL = {
    ('collections', 'namedtuple'): _collections.namedtuple,
    ('datetime', 'date'): _datetime.date, ('datetime', 'timedelta'): _datetime.timedelta,
    ('decimal', 'Decimal'): _decimal.Decimal,
    ('fractions', 'Fraction'): _fractions.Fraction,
    ('math', 'floor'): _math.floor, ('math', 'ceil'): _math.ceil, ('math', 'sqrt'): _math.sqrt,
    ('math', 'trunc'): _math.trunc,
}
PURE_CALLABLES = set(PURE_EXTERNAL.values())


REC_METHODS = {}      # record type (built by Folder.record_class) -> {method name: FuncConst}


class Folder:
    def __init__(self, importer=None):
        self.unfolded = {}   # name -> reason
        self.importer = importer   # (level, module, name) -> value, raises Unfoldable

    def fold_module(self, tree, env=None):
        env = {} if env is None else env
        for st in tree.body:
            try:
                self.stmt(st, env)
            except (_Return, _Raise, _Break, _Continue):
                raise Unfoldable('return/raise at module level')
            except Exception as e:      # Unfoldable, or a Python error while applying a pure op: not a constant
                why = '%s: %s' % (type(e).__name__, e)
                for n in ast.walk(st):
                    if isinstance(n, ast.Name) and isinstance(n.ctx, ast.Store):
                        self.unfolded[n.id] = why; env.pop(n.id, None)
                # a statement that was only partly interpreted may have changed (or would have changed) any mutable object it can
                # reach: every name bound to such an object, or to an object that shares structure with one, is no longer a constant
                if not isinstance(st, (ast.Import, ast.ImportFrom, ast.FunctionDef, ast.ClassDef)) and not (
                        isinstance(st, ast.Assign) and all(isinstance(t, ast.Name) for t in st.targets)):
                    def reach(v, acc, depth=0):
                        if isinstance(v, (dict, list, set)) and id(v) not in acc and depth < 6:
                            acc.add(id(v))
                            for x in (list(v.values()) if isinstance(v, dict) else list(v)):
                                reach(x, acc, depth + 1)
                        elif isinstance(v, tuple) and depth < 6:
                            for x in v:
                                reach(x, acc, depth + 1)
                        return acc
                    tainted = set()
                    for n in ast.walk(st):
                        if isinstance(n, ast.Name) and isinstance(n.ctx, ast.Load) and n.id in env:
                            reach(env[n.id], tainted)
                    if tainted:
                        for nm in list(env):
                            if reach(env[nm], set()) & tainted:
                                self.unfolded[nm] = 'possibly changed by a module-level statement that could not be folded (%s)' % why
                                env.pop(nm, None)
        return env

    # statements ---------------------------------------------------------
    def stmt(self, st, env):
        if isinstance(st, ast.Expr):
            if isinstance(st.value, ast.Constant): return
            self.expr(st.value, env); return
        if isinstance(st, (ast.Import, ast.ImportFrom)):
            for a in st.names:
                nm = (a.asname or a.name).split('.')[0]
                if isinstance(st, ast.Import):
                    env[nm] = ('module', a.name) if a.name in ('re', 'math') else ('extmodule', a.name)
                elif (st.module, a.name) in PURE_EXTERNAL and not st.level:
                    env[nm] = PURE_EXTERNAL[(st.module, a.name)]
                else:
                    env[nm] = LazyImport(st.level, st.module, a.name)
            return
        if isinstance(st, ast.Assign):
            v = self.expr(st.value, env)
            for t in st.targets: self.assign(t, v, env)
            return
        if isinstance(st, ast.AnnAssign):
            if st.value is not None: self.assign(st.target, self.expr(st.value, env), env)
            return
        if isinstance(st, ast.AugAssign):
            cur = self.expr(ast.copy_location(_load(st.target), st), env)
            rhs = self.expr(st.value, env)
            if isinstance(st.op, ast.Add) and isinstance(cur, list):
                cur = list(cur); cur.extend(rhs)          # list += iterable extends (a tuple on the right is fine); rebound to a fresh list here
                self.assign(st.target, cur, env); return
            self.assign(st.target, BINOPS[type(st.op)](cur, rhs), env); return
        if isinstance(st, ast.FunctionDef):
            env[st.name] = FuncConst(st, env); return
        if isinstance(st, ast.ClassDef):
            rec = self.record_class(st, env)
            env[st.name] = rec if rec is not None else ('class', st.name); return
        if isinstance(st, ast.Delete):
            for t in st.targets:
                if isinstance(t, ast.Name): env.pop(t.id, None)
                else: raise Unfoldable('del target')
            return
        if isinstance(st, ast.If):
            body = st.body if self.expr(st.test, env) else st.orelse
            for s in body: self.stmt(s, env)
            return
        if isinstance(st, ast.For):
            broke = False
            for v in self.expr(st.iter, env):
                self.assign(st.target, v, env)
                try:
                    for s in st.body: self.stmt(s, env)
                except _Continue:
                    continue
                except _Break:
                    broke = True
                    break
            if not broke:
                for s in st.orelse: self.stmt(s, env)
            return
        if isinstance(st, ast.While):
            n = 0
            broke = False
            while self.expr(st.test, env):
                n += 1
                if n > 100000: raise Unfoldable('loop bound')
                try:
                    for s in st.body: self.stmt(s, env)
                except _Continue:
                    continue
                except _Break:
                    broke = True
                    break
            if not broke:
                for s in st.orelse: self.stmt(s, env)
            return
        if isinstance(st, ast.Break): raise _Break()
        if isinstance(st, ast.Continue): raise _Continue()
        if isinstance(st, ast.Return):
            raise _Return(self.expr(st.value, env) if st.value else None)
        if isinstance(st, ast.Raise):
            ex = st.exc.func if isinstance(st.exc, ast.Call) else st.exc
            raise _Raise(ast.unparse(ex).split('.')[-1] if ex is not None else None)
        if isinstance(st, ast.Pass): return
        if isinstance(st, ast.Assert):
            if not self.expr(st.test, env): raise _Raise()
            return
        if isinstance(st, ast.Try) and not st.finalbody:
            # a raise in the body (explicit, or a Python error of a pure operation) is taken by the first handler
            try:
                for s in st.body: self.stmt(s, env)
            except (_Return, Unfoldable):
                raise
            except (_Raise, ValueError, KeyError, IndexError, TypeError, ZeroDivisionError, AttributeError):
                if not st.handlers: raise Unfoldable('try without handler')
                h = st.handlers[0]
                if h.name: env[h.name] = None
                for s in h.body: self.stmt(s, env)
                return
            for s in st.orelse: self.stmt(s, env)
            return
        raise Unfoldable('stmt %s' % type(st).__name__)

    def assign(self, t, v, env):
        if isinstance(t, ast.Name): env[t.id] = v
        elif isinstance(t, (ast.Tuple, ast.List)):
            vs = list(v)
            if len(vs) != len(t.elts): raise Unfoldable('unpack')
            for a, b in zip(t.elts, vs): self.assign(a, b, env)
        elif isinstance(t, ast.Subscript):
            self.expr(t.value, env)[self.expr(t.slice, env)] = v
        elif isinstance(t, ast.Attribute):
            o = self.expr(t.value, env)
            if not isinstance(o, ObjConst): raise Unfoldable('attribute store on %s' % type(o).__name__)
            o.attrs[t.attr] = v
        else: raise Unfoldable('assign target %s' % type(t).__name__)

    # expressions --------------------------------------------------------
    def expr(self, e, env):
        m = getattr(self, 'e_' + type(e).__name__, None)
        if m is None: raise Unfoldable('expr %s' % type(e).__name__)
        return m(e, env)

    def e_Constant(self, e, env): return e.value
    def e_Name(self, e, env):
        if e.id == 'next' and e.id not in env: return ('builtin-next',)
        if e.id in env:
            v = env[e.id]
            if isinstance(v, LazyImport):
                if self.importer is None: raise Unfoldable('import %s' % e.id)
                v = self.importer(v.level, v.module, v.name)
                env[e.id] = v
            return v
        if e.id in BUILTINS: return BUILTINS[e.id]
        raise Unfoldable('name %s' % e.id)
    def e_Tuple(self, e, env): return tuple(self.seq(e.elts, env))
    def e_List(self, e, env): return list(self.seq(e.elts, env))
    def e_Set(self, e, env): return set(self.seq(e.elts, env))
    def seq(self, elts, env):
        out = []
        for x in elts:
            if isinstance(x, ast.Starred): out.extend(self.expr(x.value, env))
            else: out.append(self.expr(x, env))
        return out
    def e_Dict(self, e, env):
        d = {}
        for k, v in zip(e.keys, e.values):
            if k is None: d.update(self.expr(v, env))
            else: d[self.expr(k, env)] = self.expr(v, env)
        return d
    def e_BinOp(self, e, env): return BINOPS[type(e.op)](self.expr(e.left, env), self.expr(e.right, env))
    def e_UnaryOp(self, e, env):
        v = self.expr(e.operand, env)
        return {ast.Not: operator.not_, ast.USub: operator.neg, ast.UAdd: operator.pos}[type(e.op)](v)
    def e_BoolOp(self, e, env):
        if isinstance(e.op, ast.And):
            v = True
            for x in e.values:
                v = self.expr(x, env)
                if not v: return v
            return v
        v = False
        for x in e.values:
            v = self.expr(x, env)
            if v: return v
        return v
    def e_Compare(self, e, env):
        l = self.expr(e.left, env)
        for op, r in zip(e.ops, e.comparators):
            r = self.expr(r, env)
            if not CMPOPS[type(op)](l, r): return False
            l = r
        return True
    def e_Lambda(self, e, env):
        fn = ast.FunctionDef(name='<lambda>', args=e.args, body=[ast.Return(value=e.body)], decorator_list=[], returns=None, type_comment=None, type_params=[])
        ast.copy_location(fn, e)
        ast.fix_missing_locations(fn)
        return FuncConst(fn, env)
    def e_IfExp(self, e, env): return self.expr(e.body if self.expr(e.test, env) else e.orelse, env)
    def e_Subscript(self, e, env): return self.expr(e.value, env)[self.expr(e.slice, env)]
    def e_Slice(self, e, env):
        f = lambda x: None if x is None else self.expr(x, env)
        return slice(f(e.lower), f(e.upper), f(e.step))
    def e_JoinedStr(self, e, env):
        out = []
        for v in e.values:
            if isinstance(v, ast.Constant): out.append(v.value)
            else:
                val = self.expr(v.value, env)
                if v.conversion == 114: val = repr(val)
                elif v.conversion == 115: val = str(val)
                elif v.conversion == 97: val = ascii(val)
                elif v.conversion != -1: raise Unfoldable('fstring conversion')
                spec = self.expr(v.format_spec, env) if v.format_spec is not None else ''
                if not isinstance(val, (str, int, float, bool)) and val is not None: raise Unfoldable('fstring of %s' % type(val).__name__)
                out.append(format(val, spec))
        return ''.join(out)
    def comp(self, gens, env, emit):
        def rec(i, env):
            if i == len(gens): emit(env); return
            g = gens[i]
            for v in self.expr(g.iter, env):
                e2 = dict(env); self.assign(g.target, v, e2)
                if all(self.expr(c, e2) for c in g.ifs): rec(i + 1, e2)
        rec(0, env)
    def e_ListComp(self, e, env):
        out = []; self.comp(e.generators, env, lambda en: out.append(self.expr(e.elt, en))); return out
    e_GeneratorExp = e_ListComp
    def e_SetComp(self, e, env): return set(self.e_ListComp(e, env))
    def e_DictComp(self, e, env):
        out = {}; self.comp(e.generators, env, lambda en: out.__setitem__(self.expr(e.key, en), self.expr(e.value, en))); return out
    def record_class(self, st, env):
        """class X(NamedTuple) with annotated fields (and plain methods): a stdlib namedtuple type - pure data, no repo code runs"""
        bases = [ast.unparse(b) for b in st.bases]
        if not any(b.split('.')[-1] == 'NamedTuple' for b in bases) or st.keywords or st.decorator_list:
            return None
        fields, defaults, methods = [], [], {}
        for x in st.body:
            if isinstance(x, ast.AnnAssign) and isinstance(x.target, ast.Name):
                fields.append(x.target.id)
                if x.value is not None:
                    defaults.append(self.expr(x.value, env))
                elif defaults:
                    return None
            elif isinstance(x, ast.FunctionDef) and not x.decorator_list:
                methods[x.name] = FuncConst(x, env)
            elif isinstance(x, ast.Expr) and isinstance(x.value, ast.Constant):
                continue
            elif isinstance(x, ast.Pass):
                continue
            else:
                return None
        if not fields:
            return None
        t = _collections.namedtuple(st.name, fields, defaults=defaults or None)
        REC_METHODS[t] = methods
        return t

    def e_Attribute(self, e, env):
        v = self.expr(e.value, env)
        if isinstance(v, tuple) and hasattr(type(v), '_fields'):
            if e.attr in type(v)._fields: return getattr(v, e.attr)
            ms = REC_METHODS.get(type(v), {})
            if e.attr in ms: return ('recmeth', v, ms[e.attr])
            if e.attr in ('_replace', '_asdict'): return ('recbound', v, e.attr)
            if e.attr == '_fields': return type(v)._fields
            raise Unfoldable('attribute %s of a record' % e.attr)
        if isinstance(v, type) and hasattr(v, '_fields') and e.attr in ('_fields', '_make'):
            return v._fields if e.attr == '_fields' else v._make
        if isinstance(v, _datetime.date) and e.attr in ('year', 'month', 'day'): return getattr(v, e.attr)
        if isinstance(v, ObjConst):
            if e.attr in v.attrs: return v.attrs[e.attr]
            if e.attr in v.methods: return ('recmeth', v, v.methods[e.attr])
            raise Unfoldable('attribute %s of the object' % e.attr)
        if isinstance(v, RegexConst) and e.attr in ('pattern', 'flags'): return getattr(v, e.attr)
        if isinstance(v, RegexConst) and e.attr in ('match', 'search', 'fullmatch'): return ('rxbound', v, e.attr)
        if isinstance(v, re.Match) and e.attr in ('group', 'groups', 'groupdict', 'span', 'start', 'end'): return ('mbound', v, e.attr)
        if isinstance(v, tuple) and v[:1] == ('module',): return ('modattr', v[1], e.attr)
        if isinstance(v, (str, list, dict, tuple, set)): return ('bound', v, e.attr)
        raise Unfoldable('attr %s' % e.attr)
    def e_Call(self, e, env):
        f = self.expr(e.func, env)
        args = self.seq(e.args, env)
        kw = {}
        for k in e.keywords:
            if k.arg is None: kw.update(self.expr(k.value, env))
            else: kw[k.arg] = self.expr(k.value, env)
        if isinstance(e.func, ast.Name) and e.func.id == 'next' and 'next' not in env and 1 <= len(args) <= 2 and not kw:
            seq = list(args[0])          # generators are evaluated eagerly here: next() is the first element
            if seq: return seq[0]
            if len(args) == 2: return args[1]
            raise _Raise('StopIteration')
        if isinstance(f, FuncConst): return self.call(f, args, kw)
        if isinstance(f, tuple) and f[0] == 'recmeth':
            static = any(isinstance(d, ast.Name) and d.id == 'staticmethod' for d in f[2].node.decorator_list)
            return self.call(f[2], ([] if static else [f[1]]) + args, kw)
        if isinstance(f, tuple) and f[0] == 'recbound': return getattr(f[1], f[2])(*args, **kw)
        if isinstance(f, type) and issubclass(f, tuple) and hasattr(f, '_fields'): return f(*args, **kw)
        if getattr(f, '__self__', None) is not None and isinstance(f.__self__, type) and hasattr(f.__self__, '_fields') \
                and f.__name__ == '_make': return f(*args)
        if isinstance(f, tuple) and f[0] == 'modattr':
            if f[1:] == ('re', 'compile'): return RegexConst(*args, **kw)
            if f[1:] == ('re', 'sub'):
                return re.sub(*args, **kw)
            if f[1] == 'math' and ('math', f[2]) in PURE_EXTERNAL:
                return PURE_EXTERNAL[('math', f[2])](*args, **kw)
            raise Unfoldable('call %s.%s' % f[1:])
        if isinstance(f, tuple) and f[0] == 'rxbound':
            # a compiled pattern applied to a constant: the stdlib regex engine on folded data (pattern and subject are constants)
            if len(args) != 1 or kw or not isinstance(args[0], str): raise Unfoldable('regex call arguments')
            fl = f[1].flags
            if isinstance(fl, tuple) and fl[:2] == ('modattr', 're') and hasattr(re, fl[2]): fl = int(getattr(re, fl[2]))
            if not isinstance(fl, int): raise Unfoldable('regex flags')
            return getattr(re.compile(f[1].pattern, fl), f[2])(args[0])
        if isinstance(f, tuple) and f[0] == 'mbound':
            return getattr(f[1], f[2])(*args, **kw)          # a match object of the stdlib engine on folded constants
        if isinstance(f, tuple) and f[0] == 'bound':
            _, obj, name = f
            if isinstance(obj, str) and name in STR_METHODS: return getattr(obj, name)(*args, **kw)
            if isinstance(obj, (list, dict, tuple, set)) and name in ('append', 'extend', 'insert', 'get', 'items', 'keys', 'values', 'index', 'count', 'update', 'setdefault', 'copy', 'add', 'sort'):
                return getattr(obj, name)(*args, **kw)
            raise Unfoldable('method %s' % name)
        if callable(f) and (f in BUILTINS.values() or f in PURE_CALLABLES): return f(*args, **kw)
        raise Unfoldable('call of %r' % (f,))
    def call(self, fc, args, kw):
        fn = fc.node
        env = self.bind_call(fc, args, kw)
        try:
            for s in fn.body: self.stmt(s, env)
        except _Return as r:
            return r.v
        return None
    def bind_call(self, fc, args, kw):
        fn = fc.node; a = fn.args
        kw = dict(kw)
        env = dict(fc.env)
        pos = [x.arg for x in a.posonlyargs + a.args]
        if len(args) > len(pos) and not a.vararg: raise Unfoldable('too many args')
        for n, v in zip(pos, args): env[n] = v
        if a.vararg: env[a.vararg.arg] = tuple(args[len(pos):])
        defaults = dict(zip(pos[len(pos) - len(a.defaults):], a.defaults))
        for n in pos[len(args):]:
            if n in kw: env[n] = kw.pop(n)
            elif n in defaults: env[n] = self.expr(defaults[n], fc.env)
            else: raise Unfoldable('missing arg %s' % n)
        for x in a.kwonlyargs:
            if x.arg in kw: env[x.arg] = kw.pop(x.arg)
        for x, d in zip(a.kwonlyargs, a.kw_defaults):
            if x.arg not in env or x.arg in fc.env and x.arg not in kw and env.get(x.arg) is fc.env.get(x.arg):
                if d is not None and x.arg not in env: env[x.arg] = self.expr(d, fc.env)
        if kw: raise Unfoldable('kwargs')
        return env


def _load(t):
    t2 = ast.parse(ast.unparse(t), mode='eval').body
    return t2


def probe_first_match(fn, menv, self_obj=None, max_patterns=40):
    """Reconstruct the ordered decision list of a first-match classifier `fn(self?, code)` whatever its control flow (if-chain, loop
    over a table, next(...), any(...)): the function is folded with the code replaced by a token and every `<pattern>.match/search/
    fullmatch(token)` intercepted.  Pass 0 answers "no match" everywhere and records the patterns in the order they are consulted;
    pass k answers "match" at the k-th consultation only and records what the function then returns (or raises).
    Returns [(pattern name or text, RegexConst, outcome)] and the outcome when nothing matches."""
    TOKEN = '<code>'

    class _P(Folder):
        def __init__(self, hit):
            Folder.__init__(self)
            self.hit, self.seen = hit, []

        def e_Call(self, e, env):
            if isinstance(e.func, ast.Attribute) and e.func.attr in ('match', 'search', 'fullmatch') and len(e.args) == 1 and not e.keywords:
                try:
                    target = self.expr(e.func.value, env)
                    arg = self.expr(e.args[0], env)
                except Unfoldable:
                    target = arg = None
                if isinstance(target, RegexConst) and arg == TOKEN:
                    name = None
                    for k_, v_ in menv.items():
                        if v_ is target:
                            name = k_
                            break
                    self.seen.append((name or target.pattern, target))
                    if len(self.seen) > max_patterns:
                        raise Unfoldable('too many pattern consultations')
                    return ('matched',) if len(self.seen) - 1 == self.hit else None
            return Folder.e_Call(self, e, env)

    def run(hit):
        F = _P(hit)
        a = fn.args.args
        args = ([self_obj] if (a and a[0].arg in ('self', 'cls')) else []) + [TOKEN]
        try:
            out = ('returns', F.call(FuncConst(fn, menv), args, {}))
        except _Raise as ex:
            out = ('raises', ex.name)
        return F.seen, out
    seen0, none_out = run(-1)
    table = []
    for k in range(len(seen0)):
        seen_k, out = run(k)
        table.append((seen0[k][0], seen0[k][1], out))
    return table, none_out
