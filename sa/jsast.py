"""E8: JavaScript side.  ESTree of js/src/*.js produced by the acorn parser bundled inside node (parse only; the
repository's JS is never evaluated), a literal-table reader, function lookup, and the predicate/constant fingerprint
extractor used on both languages."""
import ast
import json
import os
import shutil
import subprocess

from .core import AnalysisError

HERE = os.path.dirname(os.path.abspath(__file__))


def parse_js(repo, rels):
    node = shutil.which('node')
    if node is None:
        raise AnalysisError('node is not available: the JavaScript port cannot be parsed')
    paths = [os.path.join(repo.root, r) for r in rels]
    for p in paths:
        if not os.path.isfile(p):
            raise AnalysisError('anchor file missing: %s' % p)
    try:
        r = subprocess.run([node, '--expose-internals', os.path.join(HERE, 'jsparse.js')] + paths,
                           capture_output=True, text=True, timeout=120)
    except (OSError, subprocess.TimeoutExpired) as e:
        raise AnalysisError('cannot run the JS parser: %s' % e)
    if r.returncode != 0:
        raise AnalysisError('JS parser failed: %s' % (r.stderr.strip().splitlines()[-1] if r.stderr.strip() else r.returncode))
    trees = json.loads(r.stdout)
    return {rel: trees[p] for rel, p in zip(rels, paths)}


def jwalk(n):
    if isinstance(n, dict):
        if 'type' in n:
            yield n
        for k, v in n.items():
            if k != 'loc':
                yield from jwalk(v)
    elif isinstance(n, list):
        for v in n:
            yield from jwalk(v)


def line(n):
    return (n.get('loc') or {}).get('start', {}).get('line')


def functions(tree):
    """name -> function node: declarations, object-literal methods, `x = function` assignments"""
    out = {}
    for n in jwalk(tree):
        t = n['type']
        if t == 'FunctionDeclaration' and n.get('id'):
            out[n['id']['name']] = n
        elif t == 'Property' and n['value']['type'] in ('FunctionExpression', 'ArrowFunctionExpression') and n['kind'] == 'init':
            k = n['key']
            out[k.get('name') or str(k.get('value'))] = n['value']
        elif t == 'VariableDeclarator' and n.get('init') and n['init']['type'] in ('FunctionExpression', 'ArrowFunctionExpression'):
            out[n['id']['name']] = n['init']
    return out


def top_level_vars(tree):
    out = {}
    for st in tree['body']:
        decls = []
        if st['type'] == 'VariableDeclaration':
            decls = st['declarations']
        elif st['type'] == 'ExportNamedDeclaration' and st.get('declaration') and st['declaration']['type'] == 'VariableDeclaration':
            decls = st['declaration']['declarations']
        for d in decls:
            if d['id']['type'] == 'Identifier' and d.get('init') is not None:
                out[d['id']['name']] = d['init']
    return out


def literal(n):
    """Python value of a JS literal expression (objects, arrays, numbers, strings, unary minus, null, booleans)"""
    t = n['type']
    if t == 'Literal':
        if 'regex' in n:
            return ('regex', n['regex']['pattern'], n['regex']['flags'])
        return n['value']
    if t == 'ArrayExpression':
        return [literal(x) for x in n['elements']]
    if t == 'ObjectExpression':
        out = {}
        for p in n['properties']:
            if p['type'] != 'Property' or p['computed']:
                raise AnalysisError('JS object literal with computed/spread member at line %s' % line(p))
            k = p['key']
            key = k['name'] if k['type'] == 'Identifier' else k['value']
            out[key] = literal(p['value'])
        return out
    if t == 'UnaryExpression' and n['operator'] == '-' and n['argument']['type'] == 'Literal':
        return -n['argument']['value']
    if t == 'Identifier':
        return ('ident', n['name'])
    raise AnalysisError('JS expression of type %s at line %s is not a literal' % (t, line(n)))


# ---------------------------------------------------------------- fingerprints
def camel(s):
    lead = len(s) - len(s.lstrip('_'))
    parts = s.lstrip('_').split('_')
    return '_' * lead + parts[0] + ''.join(p[:1].upper() + p[1:] for p in parts[1:])


def num(v):
    if isinstance(v, bool):
        return v
    return float(v) if isinstance(v, (int, float)) else v


FLIPOP = {'Lt': 'Gt', 'Gt': 'Lt', 'LtE': 'GtE', 'GtE': 'LtE'}


def py_name(e):
    if isinstance(e, ast.Name):
        return camel(e.id)
    if isinstance(e, ast.Attribute):
        b = py_name(e.value)
        if b == 'self':
            return 'self.' + camel(e.attr)
        return (b or '?') + '.' + camel(e.attr)
    if isinstance(e, ast.Subscript):
        return (py_name(e.value) or '?') + '[' + (str(e.slice.value) if isinstance(e.slice, ast.Constant) else '?') + ']'
    if isinstance(e, ast.Call):
        f = py_name(e.func)
        return f + '()' if f else None
    if isinstance(e, ast.Constant):
        return repr(num(e.value))
    return None


def py_fingerprint(fn):
    """(set of atomic predicates, multiset of numeric constants with operator context)"""
    preds = set()
    consts = []
    for n in ast.walk(fn):
        if isinstance(n, ast.Compare):
            items = [n.left] + list(n.comparators)
            for l, op, r in zip(items, n.ops, items[1:]):
                opn = type(op).__name__
                if opn in ('In', 'NotIn') and isinstance(r, (ast.Tuple, ast.List, ast.Set)) and all(isinstance(x, ast.Constant) for x in r.elts):
                    preds.add((py_name(l), opn, tuple(sorted((num(x.value) for x in r.elts), key=str))))
                elif opn in ('In', 'NotIn') and isinstance(l, ast.Constant) and isinstance(l.value, str):
                    preds.add((py_name(r), 'Contains' if opn == 'In' else 'NotContains', l.value))
                elif opn in ('In', 'NotIn') and isinstance(r, ast.Constant) and isinstance(r.value, str) and len(r.value) > 1:
                    preds.add((py_name(l), opn, tuple(sorted(r.value))))
                elif isinstance(r, ast.Constant):
                    preds.add((py_name(l), opn, num(r.value)))
                elif isinstance(l, ast.Constant):
                    preds.add((py_name(r), FLIPOP.get(opn, opn), num(l.value)))
                else:
                    preds.add((py_name(l), opn, py_name(r)))
        if isinstance(n, ast.Call) and isinstance(n.func, ast.Name) and n.func.id in ('all', 'any') and len(n.args) == 1 and not n.keywords:
            # a quantified truth test over a collection: all(row) / any(...) is a predicate of its own (every element truthy)
            a = n.args[0]
            if isinstance(a, (ast.GeneratorExp, ast.ListComp)):
                a = a.generators[0].iter
            preds.add((py_name(a), 'All' if n.func.id == 'all' else 'Any', True))
        if isinstance(n, ast.Constant) and isinstance(n.value, (int, float)) and not isinstance(n.value, bool):
            p = getattr(n, '_parent', None)
            if isinstance(p, (ast.Subscript, ast.Slice)) or (isinstance(p, ast.UnaryOp) and isinstance(getattr(p, '_parent', None), (ast.Subscript, ast.Slice))):
                continue        # structural index
            consts.append(float(n.value))
    return preds, sorted(consts)


def js_name(e):
    t = e['type']
    if t == 'Identifier':
        return e['name']
    if t == 'ThisExpression':
        return 'self'
    if t == 'MemberExpression':
        b = js_name(e['object']) or '?'
        if e['computed']:
            p = e['property']
            return b + '[' + (str(p['value']) if p['type'] == 'Literal' else '?') + ']'
        return b + '.' + e['property']['name']
    if t == 'CallExpression':
        f = js_name(e['callee'])
        return f + '()' if f else None
    if t == 'Literal':
        return repr(num(e['value']))
    return None


JSOPS = {'===': 'Eq', '==': 'Eq', '!==': 'NotEq', '!=': 'NotEq', '<': 'Lt', '<=': 'LtE', '>': 'Gt', '>=': 'GtE'}


def js_fingerprint(fn):
    preds = set()
    consts = []
    skip = set()
    for n in jwalk(fn):
        if n['type'] == 'BinaryExpression' and n['operator'] in JSOPS:
            op = JSOPS[n['operator']]
            l, r = n['left'], n['right']
            if l['type'] == 'CallExpression' and l['callee']['type'] == 'MemberExpression' and not l['callee']['computed'] \
                    and l['callee']['property'].get('name') in ('indexOf', 'lastIndexOf') and r['type'] in ('Literal', 'UnaryExpression'):
                rv = r['value'] if r['type'] == 'Literal' else (-r['argument']['value'] if r['argument']['type'] == 'Literal' else None)
                obj = l['callee']['object']
                arg = l['arguments'][0]
                pos = (op == 'GtE' and rv == 0) or (op == 'Gt' and rv == -1) or (op == 'NotEq' and rv == -1)
                neg = (op == 'Lt' and rv == 0) or (op == 'Eq' and rv == -1) or (op == 'LtE' and rv == -1)
                if pos or neg:
                    skip.add(id(r))
                    if r['type'] == 'UnaryExpression':
                        skip.add(id(r['argument']))
                    if obj['type'] == 'ArrayExpression':
                        preds.add((js_name(arg), 'In' if pos else 'NotIn', tuple(sorted((num(x['value']) for x in obj['elements']), key=str))))
                        for x in obj['elements']:
                            pass
                    else:
                        preds.add((js_name(obj), 'Contains' if pos else 'NotContains', arg.get('value') if arg['type'] == 'Literal' else js_name(arg)))
                    continue
            if r['type'] == 'Literal':
                preds.add((js_name(l), op, num(r['value'])))
            elif l['type'] == 'Literal':
                preds.add((js_name(r), FLIPOP.get(op, op), num(l['value'])))
            else:
                preds.add((js_name(l), op, js_name(r)))
    # x.includes(y): the ES2015 spelling of x.indexOf(y) >= 0 (polarity is not part of a predicate, see norm_pred of C18)
    for n in jwalk(fn):
        if n['type'] == 'CallExpression' and n['callee']['type'] == 'MemberExpression' and not n['callee']['computed'] \
                and n['callee']['property'].get('name') == 'includes' and len(n['arguments']) == 1:
            obj, arg = n['callee']['object'], n['arguments'][0]
            if obj['type'] == 'ArrayExpression' and all(x and x['type'] == 'Literal' for x in obj['elements']):
                preds.add((js_name(arg), 'In', tuple(sorted((num(x['value']) for x in obj['elements']), key=str))))
            elif arg['type'] == 'Literal':
                preds.add((js_name(obj), 'Contains', arg.get('value')))
            else:
                preds.add((js_name(obj), 'Contains', js_name(arg)))
    for n in jwalk(fn):
        if n['type'] == 'CallExpression' and n['callee']['type'] == 'MemberExpression' and not n['callee']['computed'] \
                and n['callee']['property'].get('name') in ('every', 'some') and len(n['arguments']) >= 1:
            preds.add((js_name(n['callee']['object']), 'All' if n['callee']['property']['name'] == 'every' else 'Any', True))
    for n in jwalk(fn):
        if n['type'] == 'Literal' and isinstance(n.get('value'), (int, float)) and not isinstance(n.get('value'), bool) and id(n) not in skip:
            consts.append(float(n['value']))
    return preds, sorted(consts)


def apply_toplevel_aliases(tree, name, value):
    """apply top-level statements of the form  NAME[k1][k2] = NAME[k3][k4];  to the literal value of NAME"""
    def path(e):
        ks = []
        while e['type'] == 'MemberExpression':
            p = e['property']
            if e['computed'] and p['type'] == 'Literal':
                ks.append(p['value'])
            elif not e['computed']:
                ks.append(p['name'])
            else:
                return None, None
            e = e['object']
        return (e['name'] if e['type'] == 'Identifier' else None), ks[::-1]
    for st in tree['body']:
        if st['type'] == 'ExpressionStatement' and st['expression']['type'] == 'AssignmentExpression' and st['expression']['operator'] == '=':
            ln, lk = path(st['expression']['left'])
            if ln != name or not lk:
                continue
            rn, rk = path(st['expression']['right'])
            if rn == name and rk:
                src = value
                for k in rk:
                    src = src[k]
            else:
                try:
                    src = literal(st['expression']['right'])
                except AnalysisError:
                    raise AnalysisError('top-level assignment to %s at line %s is not an alias or a literal' % (name, line(st)))
            dst = value
            for k in lk[:-1]:
                dst = dst[k]
            dst[lk[-1]] = src
    return value


# ---------------------------------------------------------------- T-FOLD for the JS side: the module-level tables as they stand after load
class JSUnfoldable(Exception):
    pass


class _JSReturn(Exception):
    def __init__(self, v):
        self.v = v


class JSFolder:
    """Closed-initialiser evaluator for ESTree, the twin of sa/fold.py: module-level constant tables and the pure statements that
    fill or convert them (Object.entries / map / forEach / for-of / new Map / get / set / computed member assignment).  Nothing of
    the repo's JavaScript is executed; objects and Maps are both Python dicts, functions are the symbols ('ident', name).
    Anything outside this fragment makes the names it touches unfoldable (fail closed)."""

    def __init__(self, tree):
        self.env = {}
        self.unfolded = {}
        for st in tree['body']:
            d = st.get('declaration') if st['type'] in ('ExportNamedDeclaration', 'ExportDefaultDeclaration') else None
            node = d if d is not None else st
            if node['type'] == 'FunctionDeclaration' and node.get('id'):
                self.env[node['id']['name']] = ('ident', node['id']['name'])
        for st in tree['body']:
            d = st.get('declaration') if st['type'] == 'ExportNamedDeclaration' else None
            node = d if d is not None else st
            if node['type'] in ('FunctionDeclaration', 'ImportDeclaration', 'ExportNamedDeclaration', 'ExportDefaultDeclaration',
                                'ExportAllDeclaration', 'EmptyStatement', 'ClassDeclaration'):
                continue
            try:
                self.stmt(node, self.env)
            except (JSUnfoldable, _JSReturn, KeyError, IndexError, TypeError, ValueError, AttributeError, RecursionError) as e:
                why = '%s: %s' % (type(e).__name__, e)
                for nm in self.touched(node):
                    self.unfolded[nm] = why
                    self.env.pop(nm, None)

    def touched(self, node):
        """names declared by the statement, and names whose value it may change (assignment through a member, a method call on it)"""
        out = set()
        for n in jwalk(node):
            t = n.get('type')
            if t == 'VariableDeclarator':
                out |= {x['name'] for x in jwalk(n['id']) if x.get('type') == 'Identifier'}
            elif t == 'AssignmentExpression':
                e = n['left']
                while e['type'] == 'MemberExpression':
                    e = e['object']
                if e['type'] == 'Identifier':
                    out.add(e['name'])
            elif t == 'CallExpression' and n['callee']['type'] == 'MemberExpression':
                e = n['callee']['object']
                while e['type'] in ('MemberExpression', 'CallExpression'):
                    e = e['object'] if e['type'] == 'MemberExpression' else e['callee']
                if e['type'] == 'Identifier':
                    out.add(e['name'])
                for a in n['arguments']:
                    if a['type'] == 'Identifier':
                        out.add(a['name'])
        return out

    def value(self, name):
        if name in self.env:
            return self.env[name]
        raise AnalysisError('the JavaScript table %s is not a constant after module load (%s)' % (name, self.unfolded.get(name, 'not defined')))

    # statements
    def stmt(self, n, env):
        t = n['type']
        if t == 'VariableDeclaration':
            for d in n['declarations']:
                v = self.expr(d['init'], env) if d.get('init') is not None else None
                self.bind(d['id'], v, env)
        elif t == 'ExpressionStatement':
            self.expr(n['expression'], env)
        elif t == 'BlockStatement':
            for s in n['body']:
                self.stmt(s, env)
        elif t == 'ReturnStatement':
            raise _JSReturn(self.expr(n['argument'], env) if n.get('argument') else None)
        elif t == 'ForOfStatement':
            it = self.iterable(self.expr(n['right'], env))
            for v in it:
                e2 = env
                left = n['left']
                if left['type'] == 'VariableDeclaration':
                    self.bind(left['declarations'][0]['id'], v, e2)
                else:
                    self.bind(left, v, e2)
                self.stmt(n['body'], e2)
        elif t == 'IfStatement':
            if self.truthy(self.expr(n['test'], env)):
                self.stmt(n['consequent'], env)
            elif n.get('alternate'):
                self.stmt(n['alternate'], env)
        elif t == 'EmptyStatement':
            pass
        else:
            raise JSUnfoldable('statement %s at line %s' % (t, line(n)))

    def bind(self, pat, v, env):
        t = pat['type']
        if t == 'Identifier':
            env[pat['name']] = v
        elif t == 'ArrayPattern':
            vs = list(v)
            for i, p in enumerate(pat['elements']):
                if p is not None:
                    self.bind(p, vs[i] if i < len(vs) else None, env)
        elif t == 'ObjectPattern':
            for p in pat['properties']:
                if p['type'] != 'Property' or p['computed']:
                    raise JSUnfoldable('object pattern')
                k = p['key']['name'] if p['key']['type'] == 'Identifier' else p['key']['value']
                self.bind(p['value'], v.get(k), env)
        else:
            raise JSUnfoldable('pattern %s' % t)

    @staticmethod
    def truthy(v):
        return bool(v) if not isinstance(v, (list, dict, tuple)) else True

    @staticmethod
    def iterable(v):
        if isinstance(v, list):
            return list(v)
        if isinstance(v, dict):
            return [[k, x] for k, x in v.items()]         # a Map iterates as [key, value] pairs
        if isinstance(v, str):
            return list(v)
        raise JSUnfoldable('not iterable')

    # expressions
    def expr(self, n, env):
        t = n['type']
        if t == 'Literal':
            if 'regex' in n:
                return ('regex', n['regex']['pattern'], n['regex']['flags'])
            return n['value']
        if t == 'TemplateLiteral':
            out = []
            for i, q in enumerate(n['quasis']):
                out.append(q['value']['cooked'])
                if i < len(n['expressions']):
                    v = self.expr(n['expressions'][i], env)
                    if not isinstance(v, (str, int)):
                        raise JSUnfoldable('template of a non-string')
                    out.append(str(v))
            return ''.join(out)
        if t == 'Identifier':
            if n['name'] in env:
                return env[n['name']]
            if n['name'] == 'undefined':
                return None
            if n['name'] in self.unfolded:
                raise JSUnfoldable('name %s' % n['name'])
            return ('ident', n['name'])
        if t == 'ArrayExpression':
            out = []
            for x in n['elements']:
                if x is not None and x['type'] == 'SpreadElement':
                    out.extend(self.iterable(self.expr(x['argument'], env)))
                else:
                    out.append(None if x is None else self.expr(x, env))
            return out
        if t == 'ObjectExpression':
            out = {}
            for p in n['properties']:
                if p['type'] == 'SpreadElement':
                    out.update(self.expr(p['argument'], env))
                    continue
                if p['type'] != 'Property' or p.get('kind', 'init') != 'init':
                    raise JSUnfoldable('object member')
                k = p['key']
                key = self.expr(k, env) if p['computed'] else (k['name'] if k['type'] == 'Identifier' else k['value'])
                out[self.key(key)] = self.expr(p['value'], env)
            return out
        if t == 'UnaryExpression' and n['operator'] in '-+!':
            v = self.expr(n['argument'], env)
            return -v if n['operator'] == '-' else (+v if n['operator'] == '+' else (not self.truthy(v)))
        if t == 'BinaryExpression' and n['operator'] in ('+', '-', '*', '/', '===', '!==', '==', '!=', '<', '>', '<=', '>='):
            a, b = self.expr(n['left'], env), self.expr(n['right'], env)
            if not all(isinstance(x, (int, float, str)) and not isinstance(x, bool) for x in (a, b)) or type(a) is str != (type(b) is str):
                raise JSUnfoldable('binary operator on %s, %s' % (type(a).__name__, type(b).__name__))
            import operator as op
            return {'+': op.add, '-': op.sub, '*': op.mul, '/': op.truediv, '===': op.eq, '==': op.eq, '!==': op.ne, '!=': op.ne,
                    '<': op.lt, '>': op.gt, '<=': op.le, '>=': op.ge}[n['operator']](a, b)
        if t == 'ConditionalExpression':
            return self.expr(n['consequent'] if self.truthy(self.expr(n['test'], env)) else n['alternate'], env)
        if t in ('ArrowFunctionExpression', 'FunctionExpression'):
            return ('closure', n, env)
        if t == 'MemberExpression':
            o = self.expr(n['object'], env)
            k = self.expr(n['property'], env) if n['computed'] else n['property']['name']
            if isinstance(o, dict):
                if not n['computed'] and k == 'size':
                    return len(o)
                return o.get(self.key(k))
            if isinstance(o, (list, str)):
                if k == 'length':
                    return len(o)
                if isinstance(k, (int, float)) and not isinstance(k, bool):
                    return o[int(k)] if 0 <= int(k) < len(o) else None
            raise JSUnfoldable('member %s' % (k,))
        if t == 'AssignmentExpression' and n['operator'] == '=':
            v = self.expr(n['right'], env)
            left = n['left']
            if left['type'] == 'MemberExpression':
                o = self.expr(left['object'], env)
                k = self.expr(left['property'], env) if left['computed'] else left['property']['name']
                if isinstance(o, dict):
                    o[self.key(k)] = v
                elif isinstance(o, list) and isinstance(k, int) and 0 <= k <= len(o):
                    if k == len(o):
                        o.append(v)
                    else:
                        o[k] = v
                else:
                    raise JSUnfoldable('assignment target')
                return v
            if left['type'] == 'Identifier':
                env[left['name']] = v
                return v
            raise JSUnfoldable('assignment target')
        if t == 'NewExpression' and n['callee']['type'] == 'Identifier' and n['callee']['name'] in ('Map', 'Set'):
            arg = self.expr(n['arguments'][0], env) if n['arguments'] else []
            if n['callee']['name'] == 'Map':
                out = {}
                for kv in self.iterable(arg):
                    out[self.key(kv[0])] = kv[1]
                return out
            return list(dict.fromkeys(self.iterable(arg)))
        if t == 'CallExpression':
            return self.call(n, env)
        if t == 'SequenceExpression':
            v = None
            for x in n['expressions']:
                v = self.expr(x, env)
            return v
        raise JSUnfoldable('expression %s at line %s' % (t, line(n)))

    @staticmethod
    def key(k):
        if isinstance(k, (str, int, float)) and not isinstance(k, bool):
            return k
        raise JSUnfoldable('key %r' % (k,))

    def apply(self, f, args):
        if not (isinstance(f, tuple) and f and f[0] == 'closure'):
            raise JSUnfoldable('call of a function that is not a literal closure')
        _, node, env = f
        e2 = dict(env)
        for i, p in enumerate(node['params']):
            self.bind(p, args[i] if i < len(args) else None, e2)
        if node['body']['type'] != 'BlockStatement':
            return self.expr(node['body'], e2)
        try:
            self.stmt(node['body'], e2)
        except _JSReturn as r:
            return r.v
        return None

    def call(self, n, env):
        c = n['callee']
        args = []
        for a in n['arguments']:
            if a['type'] == 'SpreadElement':
                args.extend(self.iterable(self.expr(a['argument'], env)))
            else:
                args.append(self.expr(a, env))
        if c['type'] == 'MemberExpression' and not c['computed']:
            m = c['property']['name']
            if c['object']['type'] == 'Identifier' and c['object']['name'] == 'Object' and 'Object' not in env:
                o = args[0]
                if not isinstance(o, dict):
                    raise JSUnfoldable('Object.%s of a non-object' % m)
                if m == 'entries':
                    return [[k, v] for k, v in o.items()]
                if m == 'keys':
                    return list(o.keys())
                if m == 'values':
                    return list(o.values())
                if m == 'freeze':
                    return o
                if m == 'fromEntries':
                    return {self.key(k): v for k, v in self.iterable(o)}
                if m == 'assign':
                    for x in args[1:]:
                        o.update(x)
                    return o
                raise JSUnfoldable('Object.%s' % m)
            if c['object']['type'] == 'Identifier' and c['object']['name'] == 'Array' and m == 'from':
                return self.iterable(args[0])
            o = self.expr(c['object'], env)
            if isinstance(o, list):
                if m == 'map':
                    return [self.apply(args[0], [x, i]) for i, x in enumerate(o)]
                if m == 'forEach':
                    for i, x in enumerate(list(o)):
                        self.apply(args[0], [x, i])
                    return None
                if m == 'filter':
                    return [x for i, x in enumerate(o) if self.truthy(self.apply(args[0], [x, i]))]
                if m == 'reduce' and len(args) == 2:
                    acc = args[1]
                    for i, x in enumerate(o):
                        acc = self.apply(args[0], [acc, x, i])
                    return acc
                if m == 'concat':
                    out = list(o)
                    for a in args:
                        out.extend(a if isinstance(a, list) else [a])
                    return out
                if m == 'slice':
                    return o[slice(*[int(a) for a in args])] if args else list(o)
                if m in ('includes',):
                    return args[0] in o
                if m == 'indexOf':
                    return o.index(args[0]) if args[0] in o else -1
                if m == 'push':
                    o.extend(args)
                    return len(o)
                if m == 'join':
                    return (args[0] if args else ',').join(str(x) for x in o)
            if isinstance(o, dict):
                if m == 'get':
                    return o.get(self.key(args[0]))
                if m == 'set':
                    o[self.key(args[0])] = args[1]
                    return o
                if m in ('has', 'hasOwnProperty'):
                    return self.key(args[0]) in o
                if m == 'forEach':
                    for k, v in list(o.items()):
                        self.apply(args[0], [v, k])
                    return None
                if m == 'entries':
                    return [[k, v] for k, v in o.items()]
                if m == 'keys':
                    return list(o.keys())
                if m == 'values':
                    return list(o.values())
            if isinstance(o, str):
                if m == 'split' and len(args) == 1 and isinstance(args[0], str):
                    return o.split(args[0]) if args[0] else list(o)
                if m == 'toUpperCase':
                    return o.upper()
                if m == 'toLowerCase':
                    return o.lower()
            raise JSUnfoldable('method %s at line %s' % (m, line(n)))
        raise JSUnfoldable('call at line %s' % line(n))


_JSFOLD_CACHE = {}


def module_value(tree, name):
    """value of the top-level JS name after the module's top-level statements ran (fold; AnalysisError when it is not a constant)"""
    k = id(tree)
    if k not in _JSFOLD_CACHE:
        _JSFOLD_CACHE[k] = (tree, JSFolder(tree))
    return _JSFOLD_CACHE[k][1].value(name)
