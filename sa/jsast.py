"""E8: JavaScript side.  ESTree of js/src/*.js produced by the acorn parser bundled inside node (parse only; the
repository's JS is never evaluated), a literal-table reader, function lookup, and the predicate/constant fingerprint
extractor used on both languages."""
import ast
import json
import os
import shutil
import subprocess

from .core import AnalysisError

HERE = os.path.dirname(os.path.abspath(__file__))


def parse_js(repo, rels):
    node = shutil.which('node')
    if node is None:
        raise AnalysisError('node is not available: the JavaScript port cannot be parsed')
    paths = [os.path.join(repo.root, r) for r in rels]
    for p in paths:
        if not os.path.isfile(p):
            raise AnalysisError('anchor file missing: %s' % p)
    try:
        r = subprocess.run([node, '--expose-internals', os.path.join(HERE, 'jsparse.js')] + paths,
                           capture_output=True, text=True, timeout=120)
    except (OSError, subprocess.TimeoutExpired) as e:
        raise AnalysisError('cannot run the JS parser: %s' % e)
    if r.returncode != 0:
        raise AnalysisError('JS parser failed: %s' % (r.stderr.strip().splitlines()[-1] if r.stderr.strip() else r.returncode))
    trees = json.loads(r.stdout)
    return {rel: trees[p] for rel, p in zip(rels, paths)}


def jwalk(n):
    if isinstance(n, dict):
        if 'type' in n:
            yield n
        for k, v in n.items():
            if k != 'loc':
                yield from jwalk(v)
    elif isinstance(n, list):
        for v in n:
            yield from jwalk(v)


def line(n):
    return (n.get('loc') or {}).get('start', {}).get('line')


def functions(tree):
    """name -> function node: declarations, object-literal methods, `x = function` assignments"""
    out = {}
    for n in jwalk(tree):
        t = n['type']
        if t == 'FunctionDeclaration' and n.get('id'):
            out[n['id']['name']] = n
        elif t == 'Property' and n['value']['type'] in ('FunctionExpression', 'ArrowFunctionExpression') and n['kind'] == 'init':
            k = n['key']
            out[k.get('name') or str(k.get('value'))] = n['value']
        elif t == 'VariableDeclarator' and n.get('init') and n['init']['type'] in ('FunctionExpression', 'ArrowFunctionExpression'):
            out[n['id']['name']] = n['init']
    return out


def top_level_vars(tree):
    out = {}
    for st in tree['body']:
        decls = []
        if st['type'] == 'VariableDeclaration':
            decls = st['declarations']
        elif st['type'] == 'ExportNamedDeclaration' and st.get('declaration') and st['declaration']['type'] == 'VariableDeclaration':
            decls = st['declaration']['declarations']
        for d in decls:
            if d['id']['type'] == 'Identifier' and d.get('init') is not None:
                out[d['id']['name']] = d['init']
    return out


def literal(n):
    """Python value of a JS literal expression (objects, arrays, numbers, strings, unary minus, null, booleans)"""
    t = n['type']
    if t == 'Literal':
        if 'regex' in n:
            return ('regex', n['regex']['pattern'], n['regex']['flags'])
        return n['value']
    if t == 'ArrayExpression':
        return [literal(x) for x in n['elements']]
    if t == 'ObjectExpression':
        out = {}
        for p in n['properties']:
            if p['type'] != 'Property' or p['computed']:
                raise AnalysisError('JS object literal with computed/spread member at line %s' % line(p))
            k = p['key']
            key = k['name'] if k['type'] == 'Identifier' else k['value']
            out[key] = literal(p['value'])
        return out
    if t == 'UnaryExpression' and n['operator'] == '-' and n['argument']['type'] == 'Literal':
        return -n['argument']['value']
    if t == 'Identifier':
        return ('ident', n['name'])
    raise AnalysisError('JS expression of type %s at line %s is not a literal' % (t, line(n)))


# ---------------------------------------------------------------- fingerprints
def camel(s):
    lead = len(s) - len(s.lstrip('_'))
    parts = s.lstrip('_').split('_')
    return '_' * lead + parts[0] + ''.join(p[:1].upper() + p[1:] for p in parts[1:])


def num(v):
    if isinstance(v, bool):
        return v
    return float(v) if isinstance(v, (int, float)) else v


FLIPOP = {'Lt': 'Gt', 'Gt': 'Lt', 'LtE': 'GtE', 'GtE': 'LtE'}


def py_name(e):
    if isinstance(e, ast.Name):
        return camel(e.id)
    if isinstance(e, ast.Attribute):
        b = py_name(e.value)
        if b == 'self':
            return 'self.' + camel(e.attr)
        return (b or '?') + '.' + camel(e.attr)
    if isinstance(e, ast.Subscript):
        return (py_name(e.value) or '?') + '[' + (str(e.slice.value) if isinstance(e.slice, ast.Constant) else '?') + ']'
    if isinstance(e, ast.Call):
        f = py_name(e.func)
        return f + '()' if f else None
    if isinstance(e, ast.Constant):
        return repr(num(e.value))
    return None


def py_fingerprint(fn):
    """(set of atomic predicates, multiset of numeric constants with operator context)"""
    preds = set()
    consts = []
    for n in ast.walk(fn):
        if isinstance(n, ast.Compare):
            items = [n.left] + list(n.comparators)
            for l, op, r in zip(items, n.ops, items[1:]):
                opn = type(op).__name__
                if opn in ('In', 'NotIn') and isinstance(r, (ast.Tuple, ast.List, ast.Set)) and all(isinstance(x, ast.Constant) for x in r.elts):
                    preds.add((py_name(l), opn, tuple(sorted((num(x.value) for x in r.elts), key=str))))
                elif opn in ('In', 'NotIn') and isinstance(l, ast.Constant) and isinstance(l.value, str):
                    preds.add((py_name(r), 'Contains' if opn == 'In' else 'NotContains', l.value))
                elif opn in ('In', 'NotIn') and isinstance(r, ast.Constant) and isinstance(r.value, str) and len(r.value) > 1:
                    preds.add((py_name(l), opn, tuple(sorted(r.value))))
                elif isinstance(r, ast.Constant):
                    preds.add((py_name(l), opn, num(r.value)))
                elif isinstance(l, ast.Constant):
                    preds.add((py_name(r), FLIPOP.get(opn, opn), num(l.value)))
                else:
                    preds.add((py_name(l), opn, py_name(r)))
        if isinstance(n, ast.Constant) and isinstance(n.value, (int, float)) and not isinstance(n.value, bool):
            p = getattr(n, '_parent', None)
            if isinstance(p, (ast.Subscript, ast.Slice)) or (isinstance(p, ast.UnaryOp) and isinstance(getattr(p, '_parent', None), (ast.Subscript, ast.Slice))):
                continue        # structural index
            consts.append(float(n.value))
    return preds, sorted(consts)


def js_name(e):
    t = e['type']
    if t == 'Identifier':
        return e['name']
    if t == 'ThisExpression':
        return 'self'
    if t == 'MemberExpression':
        b = js_name(e['object']) or '?'
        if e['computed']:
            p = e['property']
            return b + '[' + (str(p['value']) if p['type'] == 'Literal' else '?') + ']'
        return b + '.' + e['property']['name']
    if t == 'CallExpression':
        f = js_name(e['callee'])
        return f + '()' if f else None
    if t == 'Literal':
        return repr(num(e['value']))
    return None


JSOPS = {'===': 'Eq', '==': 'Eq', '!==': 'NotEq', '!=': 'NotEq', '<': 'Lt', '<=': 'LtE', '>': 'Gt', '>=': 'GtE'}


def js_fingerprint(fn):
    preds = set()
    consts = []
    skip = set()
    for n in jwalk(fn):
        if n['type'] == 'BinaryExpression' and n['operator'] in JSOPS:
            op = JSOPS[n['operator']]
            l, r = n['left'], n['right']
            if l['type'] == 'CallExpression' and l['callee']['type'] == 'MemberExpression' and not l['callee']['computed'] \
                    and l['callee']['property'].get('name') in ('indexOf', 'lastIndexOf') and r['type'] in ('Literal', 'UnaryExpression'):
                rv = r['value'] if r['type'] == 'Literal' else (-r['argument']['value'] if r['argument']['type'] == 'Literal' else None)
                obj = l['callee']['object']
                arg = l['arguments'][0]
                pos = (op == 'GtE' and rv == 0) or (op == 'Gt' and rv == -1) or (op == 'NotEq' and rv == -1)
                neg = (op == 'Lt' and rv == 0) or (op == 'Eq' and rv == -1) or (op == 'LtE' and rv == -1)
                if pos or neg:
                    skip.add(id(r))
                    if r['type'] == 'UnaryExpression':
                        skip.add(id(r['argument']))
                    if obj['type'] == 'ArrayExpression':
                        preds.add((js_name(arg), 'In' if pos else 'NotIn', tuple(sorted((num(x['value']) for x in obj['elements']), key=str))))
                        for x in obj['elements']:
                            pass
                    else:
                        preds.add((js_name(obj), 'Contains' if pos else 'NotContains', arg.get('value')))
                    continue
            if r['type'] == 'Literal':
                preds.add((js_name(l), op, num(r['value'])))
            elif l['type'] == 'Literal':
                preds.add((js_name(r), FLIPOP.get(op, op), num(l['value'])))
            else:
                preds.add((js_name(l), op, js_name(r)))
    # x.includes(y): the ES2015 spelling of x.indexOf(y) >= 0 (polarity is not part of a predicate, see norm_pred of C18)
    for n in jwalk(fn):
        if n['type'] == 'CallExpression' and n['callee']['type'] == 'MemberExpression' and not n['callee']['computed'] \
                and n['callee']['property'].get('name') == 'includes' and len(n['arguments']) == 1:
            obj, arg = n['callee']['object'], n['arguments'][0]
            if obj['type'] == 'ArrayExpression' and all(x and x['type'] == 'Literal' for x in obj['elements']):
                preds.add((js_name(arg), 'In', tuple(sorted((num(x['value']) for x in obj['elements']), key=str))))
            elif arg['type'] == 'Literal':
                preds.add((js_name(obj), 'Contains', arg.get('value')))
            else:
                preds.add((js_name(obj), 'Contains', js_name(arg)))
    for n in jwalk(fn):
        if n['type'] == 'Literal' and isinstance(n.get('value'), (int, float)) and not isinstance(n.get('value'), bool) and id(n) not in skip:
            consts.append(float(n['value']))
    return preds, sorted(consts)


def apply_toplevel_aliases(tree, name, value):
    """apply top-level statements of the form  NAME[k1][k2] = NAME[k3][k4];  to the literal value of NAME"""
    def path(e):
        ks = []
        while e['type'] == 'MemberExpression':
            p = e['property']
            if e['computed'] and p['type'] == 'Literal':
                ks.append(p['value'])
            elif not e['computed']:
                ks.append(p['name'])
            else:
                return None, None
            e = e['object']
        return (e['name'] if e['type'] == 'Identifier' else None), ks[::-1]
    for st in tree['body']:
        if st['type'] == 'ExpressionStatement' and st['expression']['type'] == 'AssignmentExpression' and st['expression']['operator'] == '=':
            ln, lk = path(st['expression']['left'])
            if ln != name or not lk:
                continue
            rn, rk = path(st['expression']['right'])
            if rn == name and rk:
                src = value
                for k in rk:
                    src = src[k]
            else:
                try:
                    src = literal(st['expression']['right'])
                except AnalysisError:
                    raise AnalysisError('top-level assignment to %s at line %s is not an alias or a literal' % (name, line(st)))
            dst = value
            for k in lk[:-1]:
                dst = dst[k]
            dst[lk[-1]] = src
    return value
