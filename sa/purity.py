"""Observer purity with aliases: does a method change objects that belong to the state it was called on?

Two-level taint per local name:  obj  = the value may BE a state object (self, an attribute of one, an element of a state
container);  elems = the value is a fresh container whose elements may be state objects.  Fresh values: displays,
comprehensions, concatenations (a + b), calls of sorted/list/tuple/dict/set/str/int/float/len/..., string formatting,
constants.  A mutation is: assignment / augmented assignment to an attribute or item of an obj-tainted value; an augmented
assignment `name += <list-like>` on an obj-tainted name (in-place extension of the aliased list); a mutating method
(append, extend, insert, pop, remove, clear, sort, reverse, update, setdefault, add, discard) on an obj-tainted value."""
import ast

FRESH_CALLS = {'sorted', 'list', 'tuple', 'dict', 'set', 'frozenset', 'str', 'int', 'float', 'len', 'sum', 'min', 'max', 'abs', 'round',
               'repr', 'bool', 'any', 'all', 'enumerate', 'zip', 'range', 'map', 'filter', 'reversed', 'isinstance', 'getattr_const',
               'Decimal', 'format', 'join', 'copy', 'deepcopy', 'type', 'id', 'hash', 'divmod', 'ord', 'chr'}
MUTATORS = {'append', 'extend', 'insert', 'pop', 'remove', 'clear', 'sort', 'reverse', 'update', 'setdefault', 'add', 'discard', 'popitem',
            '__setitem__', '__delitem__'}


class Taint:
    def __init__(self, fn, roots=('self',), list_attrs=None):
        self.fn = fn
        self.obj = set(roots)      # names that may be state objects
        self.elems = set()         # names of fresh containers holding state objects
        self.mutations = []        # (node, description)
        self.source = {}           # name -> attribute name it was last bound from
        self.list_attrs = set(list_attrs or ())

    # ---- classification of an expression: (obj, elems)
    def cls(self, e):
        if e is None or isinstance(e, (ast.Constant, ast.JoinedStr)):
            return False, False
        if isinstance(e, ast.Name):
            return e.id in self.obj, e.id in self.elems
        if isinstance(e, ast.Attribute):
            o, el = self.cls(e.value)
            return o or el, False
        if isinstance(e, ast.Subscript):
            o, el = self.cls(e.value)
            if isinstance(e.slice, ast.Slice):
                return False, o or el          # a slice is a fresh list of the same elements
            return o or el, False
        if isinstance(e, (ast.List, ast.Tuple, ast.Set)):
            return False, any(any(self.cls(x)) for x in e.elts)
        if isinstance(e, ast.Dict):
            return False, any(any(self.cls(x)) for x in list(e.values) + [k for k in e.keys if k is not None])
        if isinstance(e, (ast.ListComp, ast.SetComp, ast.GeneratorExp, ast.DictComp)):
            saved_o, saved_e = set(self.obj), set(self.elems)
            for g in e.generators:
                o, el = self.cls(g.iter)
                for x in ast.walk(g.target):
                    if isinstance(x, ast.Name) and (o or el):
                        self.obj.add(x.id)
            parts = [e.elt] if not isinstance(e, ast.DictComp) else [e.key, e.value]
            r = any(any(self.cls(x)) for x in parts)
            self.obj, self.elems = saved_o, saved_e
            return False, r
        if isinstance(e, ast.BinOp):
            if isinstance(e.op, ast.Mod) and isinstance(e.left, ast.Constant):
                return False, False
            a, b = self.cls(e.left), self.cls(e.right)
            return False, any(a) or any(b)       # a + b builds a new object; its elements come from both
        if isinstance(e, ast.BoolOp):
            rs = [self.cls(v) for v in e.values]
            return any(r[0] for r in rs), any(r[1] for r in rs)
        if isinstance(e, ast.IfExp):
            a, b = self.cls(e.body), self.cls(e.orelse)
            return a[0] or b[0], a[1] or b[1]
        if isinstance(e, (ast.Compare, ast.UnaryOp)):
            return False, False
        if isinstance(e, ast.Call):
            nm = e.func.id if isinstance(e.func, ast.Name) else (e.func.attr if isinstance(e.func, ast.Attribute) else None)
            args = list(e.args) + [k.value for k in e.keywords]
            anyt = any(any(self.cls(a)) for a in args)
            if nm == 'getattr' and e.args:
                o, el = self.cls(e.args[0])
                return o or el, False
            if nm in FRESH_CALLS:
                return False, anyt
            if isinstance(e.func, ast.Attribute):
                o, el = self.cls(e.func.value)
                if nm in ('get', 'pop', 'setdefault', '__getitem__'):
                    return o or el, False
                if nm in ('items', 'values', 'keys', 'copy'):
                    return False, o or el
                # a method of a state object may hand out state
                return o or el or anyt, False
            return anyt, False
        if isinstance(e, ast.Starred):
            return self.cls(e.value)
        return True, False

    def bind(self, target, o, el, src=None):
        if isinstance(target, ast.Name):
            if src is not None:
                self.source[target.id] = src
            else:
                self.source.pop(target.id, None)
            (self.obj.add if o else self.obj.discard)(target.id)
            (self.elems.add if el else self.elems.discard)(target.id)
        elif isinstance(target, (ast.Tuple, ast.List)):
            for x in target.elts:
                self.bind(x, o or el, False)
        elif isinstance(target, ast.Starred):
            self.bind(target.value, False, o or el)

    def listish(self, e, target=None):
        """the right side of `name += e` shows that the aliased object is a list (then += extends it in place)"""
        if isinstance(e, (ast.List, ast.ListComp)):
            return True
        if isinstance(e, ast.BinOp):
            return self.listish(e.left) or self.listish(e.right)
        if isinstance(e, ast.Call) and isinstance(e.func, ast.Name) and e.func.id in ('list', 'sorted'):
            return True
        # otherwise decide by what the alias was taken from: an attribute the module initialises with a list / dict display
        return target is not None and self.source.get(target) in self.list_attrs

    def run(self):
        for _ in range(3):          # loops: iterate bindings to a fixpoint
            self.mutations = []
            self.block(self.fn.body)
        return self.mutations

    def block(self, stmts):
        for st in stmts:
            self.stmt(st)

    def note(self, node, what):
        self.mutations.append((node, what))

    def stmt(self, st):
        if isinstance(st, ast.Assign):
            o, el = self.cls(st.value)
            for t in st.targets:
                if isinstance(t, (ast.Attribute, ast.Subscript)):
                    bo, bel = self.cls(t.value)
                    if bo:
                        self.note(st, 'assigns to %s' % ast.unparse(t))
                else:
                    self.bind(t, o, el, st.value.attr if isinstance(st.value, ast.Attribute) else None)
            self.calls(st.value)
        elif isinstance(st, ast.AugAssign):
            t = st.target
            if isinstance(t, (ast.Attribute, ast.Subscript)):
                bo, bel = self.cls(t.value)
                if bo:
                    self.note(st, 'changes %s in place' % ast.unparse(t))
            elif isinstance(t, ast.Name) and t.id in self.obj and isinstance(st.op, ast.Add) and not isinstance(st.value, ast.Constant) \
                    and self.listish(st.value, t.id):
                self.note(st, '`%s` extends in place the list that `%s` aliases' % (ast.unparse(st), t.id))
            self.calls(st.value)
        elif isinstance(st, ast.AnnAssign):
            if st.value is not None:
                o, el = self.cls(st.value)
                self.bind(st.target, o, el)
                self.calls(st.value)
        elif isinstance(st, ast.For):
            o, el = self.cls(st.iter)
            self.bind(st.target, o or el, False)
            self.calls(st.iter)
            self.block(st.body)
            self.block(st.orelse)
        elif isinstance(st, ast.While):
            self.calls(st.test)
            self.block(st.body)
            self.block(st.orelse)
        elif isinstance(st, ast.If):
            self.calls(st.test)
            self.block(st.body)
            self.block(st.orelse)
        elif isinstance(st, ast.With):
            for it in st.items:
                self.calls(it.context_expr)
                if it.optional_vars is not None:
                    o, el = self.cls(it.context_expr)
                    self.bind(it.optional_vars, o, el)
            self.block(st.body)
        elif isinstance(st, ast.Try):
            self.block(st.body)
            for h in st.handlers:
                self.block(h.body)
            self.block(st.orelse)
            self.block(st.finalbody)
        elif isinstance(st, (ast.Expr, ast.Return)):
            if st.value is not None:
                self.calls(st.value)
        elif isinstance(st, ast.Delete):
            for t in st.targets:
                if isinstance(t, (ast.Attribute, ast.Subscript)) and self.cls(t.value)[0]:
                    self.note(st, 'deletes %s' % ast.unparse(t))

    def calls(self, e):
        for c in ast.walk(e):
            if isinstance(c, ast.Call) and isinstance(c.func, ast.Attribute) and c.func.attr in MUTATORS:
                o, el = self.cls(c.func.value)
                if o:
                    self.note(c, '%s() on %s' % (c.func.attr, ast.unparse(c.func.value)))
            if isinstance(c, ast.Call) and isinstance(c.func, ast.Name) and c.func.id == 'setattr' and c.args and self.cls(c.args[0])[0]:
                self.note(c, 'setattr on %s' % ast.unparse(c.args[0]))


def list_attributes(tree):
    """attribute names that the module initialises with a list / dict / set display or constructor"""
    out = set()
    for n in ast.walk(tree):
        if isinstance(n, ast.Assign) and (isinstance(n.value, (ast.List, ast.Dict, ast.Set, ast.ListComp, ast.DictComp)) or (
                isinstance(n.value, ast.Call) and isinstance(n.value.func, ast.Name) and n.value.func.id in ('list', 'dict', 'set'))):
            for t in n.targets:
                if isinstance(t, ast.Attribute):
                    out.add(t.attr)
    return out


def state_mutations(fn, roots=('self',), list_attrs=None):
    """[(node, description)] of the places where fn changes an object reachable from its roots"""
    return Taint(fn, roots, list_attrs).run()


def impure_methods(mod):
    """{qualname: [(lineno, reason)]}: methods that change state reachable from self, directly or through a call of an impure
    method (resolved by method name within the module) on self or on an object taken from the state"""
    la = list_attributes(mod.tree)
    direct = {}
    taints = {}
    # a derived value cached in an attribute (`if self._k is None: self._k = ...`) is not a change of the state it is derived from;
    # whether the cache is dropped when its inputs change is rule STALE (sa/memo.py)
    from .memo import instance_memos
    memo_attr = {}
    for _c, holder, attr, _comp, _m, _s in instance_memos(mod):
        memo_attr.setdefault(id(holder), set()).add(attr)
    for q, fn in mod.functions.items():
        t = Taint(fn, ('self',) if '.' in q else (), la)
        muts = t.run()
        taints[q] = t
        direct[q] = [(n.lineno, d) for n, d in muts
                     if not (isinstance(n, ast.Assign) and any(isinstance(x, ast.Attribute) and x.attr in memo_attr.get(id(fn), ()) for x in n.targets))]
    by_name = {}
    for q in mod.functions:
        by_name.setdefault(q.split('.')[-1], []).append(q)
    impure = {q: list(v) for q, v in direct.items() if v}
    changed = True
    while changed:
        changed = False
        for q, fn in mod.functions.items():
            if q in impure:
                continue
            t = taints[q]
            for c in ast.walk(fn):
                callee = None
                if isinstance(c, ast.Call) and isinstance(c.func, ast.Attribute):
                    o, el = t.cls(c.func.value)
                    if o:
                        callee = c.func.attr
                elif isinstance(c, ast.Attribute) and isinstance(c.ctx, ast.Load) and t.cls(c.value)[0]:
                    # property read on a state object
                    cands = [x for x in by_name.get(c.attr, []) if any(
                        isinstance(d, ast.Name) and d.id == 'property' for d in mod.functions[x].decorator_list)]
                    if cands:
                        callee = c.attr
                if callee is None:
                    continue
                for x in by_name.get(callee, []):
                    if x in impure and x != q and not x.endswith('.__init__'):
                        impure[q] = [(c.lineno, 'calls %s, which %s' % (x, impure[x][0][1]))]
                        changed = True
                        break
                if q in impure:
                    break
    return impure

