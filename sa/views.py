"""Semantics-preserving normalised VIEWS of the tree under analysis.

Why: most rules recognise a behaviour by the shape it has in the source (a rounding before a power law, a guard before a store, an
if-chain of formats).  A rule that finds the shape has found the behaviour; a rule that does not find it has only failed to
recognise it.  A harmless refactoring - a helper extracted, a constant given a name, guard clauses instead of nested if/else, an
f-string instead of % - must not turn into an alarm.  So when a check does not come out clean on the source as written, the same
check is run again on views of the program that compute the same thing and undo exactly these refactorings:

  P1  calls of helpers that did not exist when the rules were written (spec/baseline_names.json) are inlined into their callers
  P2  module / class constants that did not exist then are substituted into their uses
  P6  f-strings and str.format with plain fields are rewritten as % formatting
  P3  guard clauses are turned into nested if/else            (view `nested`)
  P4  nested if/else with a terminating branch is flattened   (view `flat`)

A rule holds when it holds cleanly (>= 1 obligation shown, no finding) in the source as written or in any view: every view is the
same program.  A finding is reported only when the rule fails in every view that could be analysed.  Views are written with
ast.unparse to a scratch directory outside /repo and /verif and removed at once.
"""
import ast
import copy
import json
import os
import re
import shutil
import tempfile

from .core import VERIF

SPEC = os.path.join(VERIF, 'spec', 'baseline_names.json')
COPY = ['athlib', 'js/src', 'json', 'scripts/make-patterns-js.py']
PURE_CALLS = {'frozenset', 'set', 'tuple', 'dict', 'list', 'range', 'len', 'enumerate', 'zip', 'sorted', 'min', 'max', 'int', 'float',
              'str', 'compile', 'Decimal', 'D'}
MUTATORS = {'append', 'extend', 'insert', 'pop', 'remove', 'clear', 'update', 'setdefault', 'add', 'discard', 'sort', 'reverse', 'popitem'}


def module_names(tree):
    """qualified function names and module/class level assigned names of one module"""
    fns, consts = [], []
    for st in tree.body:
        if isinstance(st, (ast.FunctionDef, ast.AsyncFunctionDef)):
            fns.append(st.name)
        elif isinstance(st, ast.ClassDef):
            fns.append(st.name)
            for x in st.body:
                if isinstance(x, (ast.FunctionDef, ast.AsyncFunctionDef)):
                    fns.append('%s.%s' % (st.name, x.name))
                else:
                    for t in assigned_names(x):
                        consts.append('%s.%s' % (st.name, t))
        else:
            consts.extend(assigned_names(st))
    return sorted(set(fns)), sorted(set(consts))


def fingerprint(fn):
    """shape of a function with its own names abstracted away: parameters and locals are numbered in order of first occurrence, the
    docstring and annotations are dropped; two functions with the same fingerprint differ only in the names they chose"""
    import hashlib
    f = copy.deepcopy(fn)
    f.body = _strip_doc(f.body) or [ast.Pass()]
    own = {}

    def num(nm):
        if nm not in own:
            own[nm] = 'v%d' % len(own)
        return own[nm]
    for a in f.args.posonlyargs + f.args.args + f.args.kwonlyargs:
        a.arg = num(a.arg)
        a.annotation = None
    f.returns = None
    local = {n.id for n in ast.walk(f) if isinstance(n, ast.Name) and isinstance(n.ctx, (ast.Store, ast.Del))}
    for n in ast.walk(f):
        if isinstance(n, ast.Name) and (n.id in local or n.id in own):
            n.id = num(n.id)
        elif isinstance(n, ast.AnnAssign):
            n.annotation = ast.Constant(value=None)
    f.name = '_'
    f.decorator_list = [d for d in f.decorator_list]
    return hashlib.sha1(ast.dump(f, annotate_fields=False).encode()).hexdigest()[:16]


def module_fingerprints(tree):
    out = {}
    for st in tree.body:
        if isinstance(st, ast.FunctionDef):
            out[st.name] = fingerprint(st)
        elif isinstance(st, ast.ClassDef):
            for x in st.body:
                if isinstance(x, ast.FunctionDef):
                    out['%s.%s' % (st.name, x.name)] = fingerprint(x)
    return out


def assigned_names(st):
    out = []
    tg = []
    if isinstance(st, ast.Assign):
        tg = st.targets
    elif isinstance(st, (ast.AnnAssign, ast.AugAssign)):
        tg = [st.target]
    for t in tg:
        for n in ast.walk(t):
            if isinstance(n, ast.Name):
                out.append(n.id)
    return out


def load_baseline():
    try:
        with open(SPEC) as f:
            return json.load(f)
    except OSError:
        return None


# ------------------------------------------------------------------ P3 / P4 control-flow forms
def terminates(body):
    if not body:
        return False
    last = body[-1]
    if isinstance(last, (ast.Return, ast.Raise, ast.Continue, ast.Break)):
        return True
    if isinstance(last, ast.If) and last.orelse:
        return terminates(last.body) and terminates(last.orelse)
    return False


def _blocks(node):
    for name in ('body', 'orelse', 'finalbody'):
        b = getattr(node, name, None)
        if isinstance(b, list) and b and isinstance(b[0], ast.stmt):
            yield name, b
    if isinstance(node, ast.Try):
        for h in node.handlers:
            yield 'hbody', h.body


def else_absorb_block(block):
    """`if c: ...; return` followed by REST  ->  `if c: ...; return` else: REST"""
    out = []
    i = 0
    while i < len(block):
        st = block[i]
        for _, b in list(_blocks(st)):
            b[:] = else_absorb_block(b)
        if isinstance(st, ast.If) and terminates(st.body) and i + 1 < len(block):
            rest = else_absorb_block(block[i + 1:])
            if st.orelse:
                # if/else where only the body terminates: the rest belongs to the else branch
                if not terminates(st.orelse):
                    st.orelse = st.orelse + rest
                    out.append(st)
                    return out
            else:
                st.orelse = rest
                out.append(st)
                return out
        out.append(st)
        i += 1
    return out


def flatten_block(block):
    """`if c: ...; return` else: REST  ->  `if c: ...; return` followed by REST"""
    out = []
    for st in block:
        for _, b in list(_blocks(st)):
            b[:] = flatten_block(b)
        if isinstance(st, ast.If) and st.orelse and terminates(st.body):
            rest = st.orelse
            st.orelse = []
            out.append(st)
            out.extend(flatten_block(rest))
        else:
            out.append(st)
    return out


def apply_cf(tree, how):
    for fn in ast.walk(tree):
        if isinstance(fn, (ast.FunctionDef, ast.AsyncFunctionDef)):
            fn.body[:] = else_absorb_block(fn.body) if how == 'nested' else flatten_block(fn.body)


# ------------------------------------------------------------------ P6 f-strings / str.format -> %
SPEC_RX = re.compile(r'^[-+ #0]?\d*(\.\d+)?[dfsxXeEgGi]$')


def _percent_of_joined(js):
    fmt, vals = [], []
    for v in js.values:
        if isinstance(v, ast.Constant) and isinstance(v.value, str):
            fmt.append(v.value.replace('%', '%%'))
        elif isinstance(v, ast.FormattedValue):
            conv = {-1: 's', 115: 's', 114: 'r', 97: 'a'}.get(v.conversion)
            if conv is None:
                return None
            if v.format_spec is None:
                fmt.append('%' + conv)
            else:
                fs = v.format_spec
                if not (isinstance(fs, ast.JoinedStr) and len(fs.values) == 1 and isinstance(fs.values[0], ast.Constant)):
                    return None
                sp = fs.values[0].value
                if v.conversion != -1 or not SPEC_RX.match(sp):
                    return None
                fmt.append('%' + sp)
            vals.append(v.value)
        else:
            return None
    if not vals:
        return None
    return ast.BinOp(left=ast.Constant(value=''.join(fmt)), op=ast.Mod(), right=ast.Tuple(elts=vals, ctx=ast.Load()))


FIELD_RX = re.compile(r'\{(\d*)(?:!([rsa]))?(?::([^{}]*))?\}|\{\{|\}\}|[^{}]+|[{}]')


def _percent_of_format(call):
    if not (isinstance(call.func, ast.Attribute) and call.func.attr == 'format' and isinstance(call.func.value, ast.Constant)
            and isinstance(call.func.value.value, str) and not call.keywords and call.args
            and not any(isinstance(a, ast.Starred) for a in call.args)):
        return None
    fmt, vals, auto = [], [], 0
    for m in FIELD_RX.finditer(call.func.value.value):
        t = m.group(0)
        if t == '{{':
            fmt.append('{')
        elif t == '}}':
            fmt.append('}')
        elif t.startswith('{') and t.endswith('}') and len(t) >= 2:
            idx, conv, sp = m.group(1), m.group(2), m.group(3)
            if idx == '':
                k = auto
                auto += 1
            else:
                k = int(idx)
            if k >= len(call.args):
                return None
            if sp:
                if conv or not SPEC_RX.match(sp):
                    return None
                fmt.append('%' + sp)
            else:
                fmt.append('%' + (conv or 's'))
            vals.append(call.args[k])
        elif t in '{}':
            return None
        else:
            fmt.append(t.replace('%', '%%'))
    if not vals:
        return None
    return ast.BinOp(left=ast.Constant(value=''.join(fmt)), op=ast.Mod(), right=ast.Tuple(elts=vals, ctx=ast.Load()))


class PercentFormats(ast.NodeTransformer):
    def visit_JoinedStr(self, node):
        self.generic_visit(node)
        r = _percent_of_joined(node)
        return ast.copy_location(r, node) if r is not None else node

    def visit_Call(self, node):
        self.generic_visit(node)
        r = _percent_of_format(node)
        return ast.copy_location(r, node) if r is not None else node


class MembershipDisplays(ast.NodeTransformer):
    """P7  `x in frozenset([...])` / set((...)) / tuple([...]) of constants  ->  `x in (...)`: the same membership test"""
    def visit_Compare(self, node):
        self.generic_visit(node)
        if len(node.ops) == 1 and isinstance(node.ops[0], (ast.In, ast.NotIn)):
            c = node.comparators[0]
            if isinstance(c, ast.Call) and isinstance(c.func, ast.Name) and c.func.id in ('frozenset', 'set', 'tuple', 'list') and len(c.args) == 1 \
                    and not c.keywords and isinstance(c.args[0], (ast.List, ast.Tuple, ast.Set)) \
                    and all(isinstance(x, ast.Constant) for x in c.args[0].elts):
                node.comparators[0] = ast.copy_location(ast.Tuple(elts=c.args[0].elts, ctx=ast.Load()), c)
        return node


def _is_none_test(t, name):
    return isinstance(t, ast.Compare) and len(t.ops) == 1 and isinstance(t.ops[0], ast.Is) and isinstance(t.left, ast.Name) \
        and t.left.id == name and isinstance(t.comparators[0], ast.Constant) and t.comparators[0].value is None


def get_to_membership(tree):
    """P8  `x = T.get(k)` ; `if x is None: <leave>`   ->   `if k not in T: <leave>` ; `x = T[k]`
    for a module-level table T (its rows are objects, never None): the same lookup written the other way round"""
    globals_ = {n for st in tree.body for n in assigned_names(st)}
    n_done = [0]

    def do_block(block):
        out = []
        i = 0
        while i < len(block):
            st = block[i]
            for _, b in list(_blocks(st)):
                b[:] = do_block(b)
            nxt = block[i + 1] if i + 1 < len(block) else None
            if isinstance(st, ast.Assign) and len(st.targets) == 1 and isinstance(st.targets[0], ast.Name) and isinstance(st.value, ast.Call) \
                    and isinstance(st.value.func, ast.Attribute) and st.value.func.attr == 'get' and isinstance(st.value.func.value, ast.Name) \
                    and st.value.func.value.id in globals_ and not st.value.keywords \
                    and (len(st.value.args) == 1 or (len(st.value.args) == 2 and isinstance(st.value.args[1], ast.Constant)
                                                     and st.value.args[1].value is None)) \
                    and isinstance(nxt, ast.If) and not nxt.orelse and _is_none_test(nxt.test, st.targets[0].id) and terminates(nxt.body) \
                    and not any(isinstance(x, ast.Name) and x.id == st.targets[0].id for b_ in nxt.body for x in ast.walk(b_)):
                tbl, key = st.value.func.value, st.value.args[0]
                for _, b in list(_blocks(nxt)):
                    b[:] = do_block(b)
                if not isinstance(key, (ast.Name, ast.Constant)):
                    # the key computed in place gets a name first: `key = <expr>`
                    knm = 'key' if 'key' not in fn_names[0] else '_key'
                    out.append(ast.copy_location(ast.Assign(targets=[ast.Name(id=knm, ctx=ast.Store())], value=key), st))
                    key = ast.Name(id=knm, ctx=ast.Load())
                g = ast.If(test=ast.Compare(left=copy.deepcopy(key), ops=[ast.NotIn()], comparators=[copy.deepcopy(tbl)]), body=nxt.body, orelse=[])
                a = ast.Assign(targets=st.targets, value=ast.Subscript(value=copy.deepcopy(tbl), slice=copy.deepcopy(key), ctx=ast.Load()))
                out.append(ast.copy_location(g, nxt))
                out.append(ast.copy_location(a, st))
                n_done[0] += 1
                i += 2
                continue
            out.append(st)
            i += 1
        return out
    fn_names = [set()]
    for fn in ast.walk(tree):
        if isinstance(fn, ast.FunctionDef):
            fn_names[0] = {n.id for n in ast.walk(fn) if isinstance(n, ast.Name)} | {a.arg for a in fn.args.args}
            fn.body[:] = do_block(fn.body)
    return n_done[0]


class DictLiteralGet(ast.NodeTransformer):
    """P9  {k1: v1, k2: v1, k3: v2}.get(x, d)  ->  v1 if x in (k1, k2) else v2 if x == k3 else d   (a small table of constants written as
    the conditional chain it abbreviates; keys and values are constants, so == on the keys is the dictionary lookup)"""
    def visit_Call(self, node):
        self.generic_visit(node)
        f = node.func
        if isinstance(f, ast.Attribute) and f.attr == 'get' and isinstance(f.value, ast.Dict) and len(node.args) == 2 and not node.keywords \
                and 0 < len(f.value.keys) <= 16 and all(isinstance(k, ast.Constant) for k in f.value.keys) \
                and all(isinstance(v, ast.Constant) for v in f.value.values):
            groups = []
            for k, v in zip(f.value.keys, f.value.values):
                for g in groups:
                    if g[0].value == v.value and type(g[0].value) is type(v.value):
                        g[1].append(k)
                        break
                else:
                    groups.append((v, [k]))
            x, out = node.args[0], node.args[1]
            for v, ks in reversed(groups):
                if len(ks) == 1:
                    test = ast.Compare(left=copy.deepcopy(x), ops=[ast.Eq()], comparators=[ks[0]])
                else:
                    test = ast.Compare(left=copy.deepcopy(x), ops=[ast.In()], comparators=[ast.Tuple(elts=ks, ctx=ast.Load())])
                out = ast.IfExp(test=test, body=v, orelse=out)
            return ast.copy_location(out, node)
        return node


def get_found_to_membership(tree):
    """P11  `x = T.get(k)` ; `if x is not None: return x`   ->   `if k in T: return T[k]`  for a module-level table T"""
    globals_ = {n for st in tree.body for n in assigned_names(st)}
    n_done = [0]

    def do_block(block):
        out = []
        i = 0
        while i < len(block):
            st = block[i]
            for _, b in list(_blocks(st)):
                b[:] = do_block(b)
            nxt = block[i + 1] if i + 1 < len(block) else None
            if isinstance(st, ast.Assign) and len(st.targets) == 1 and isinstance(st.targets[0], ast.Name) and isinstance(st.value, ast.Call) \
                    and isinstance(st.value.func, ast.Attribute) and st.value.func.attr == 'get' and isinstance(st.value.func.value, ast.Name) \
                    and st.value.func.value.id in globals_ and not st.value.keywords and len(st.value.args) == 1 \
                    and isinstance(nxt, ast.If) and not nxt.orelse and isinstance(nxt.test, ast.Compare) and len(nxt.test.ops) == 1 \
                    and isinstance(nxt.test.ops[0], ast.IsNot) and isinstance(nxt.test.left, ast.Name) and nxt.test.left.id == st.targets[0].id \
                    and isinstance(nxt.test.comparators[0], ast.Constant) and nxt.test.comparators[0].value is None \
                    and len(nxt.body) == 1 and isinstance(nxt.body[0], ast.Return) and isinstance(nxt.body[0].value, ast.Name) \
                    and nxt.body[0].value.id == st.targets[0].id:
                tbl, key = st.value.func.value, st.value.args[0]
                g = ast.If(test=ast.Compare(left=copy.deepcopy(key), ops=[ast.In()], comparators=[copy.deepcopy(tbl)]),
                           body=[ast.Return(value=ast.Subscript(value=copy.deepcopy(tbl), slice=copy.deepcopy(key), ctx=ast.Load()))], orelse=[])
                out.append(ast.copy_location(g, nxt))
                n_done[0] += 1
                i += 2
                continue
            out.append(st)
            i += 1
        return out
    for fn in ast.walk(tree):
        if isinstance(fn, ast.FunctionDef):
            fn.body[:] = do_block(fn.body)
    return n_done[0]


def get_default_to_if(tree):
    """P10  `t = T.get(k, d)`  ->  `if k in T: t = T[k]` else: `t = d`  (dropped when d is t itself) for a module-level table T"""
    globals_ = {n for st in tree.body for n in assigned_names(st)}
    n_done = [0]

    def do_block(block):
        out = []
        for st in block:
            for _, b in list(_blocks(st)):
                b[:] = do_block(b)
            if isinstance(st, ast.Assign) and len(st.targets) == 1 and isinstance(st.targets[0], ast.Name) and isinstance(st.value, ast.Call) \
                    and isinstance(st.value.func, ast.Attribute) and st.value.func.attr == 'get' and isinstance(st.value.func.value, ast.Name) \
                    and st.value.func.value.id in globals_ and not st.value.keywords and len(st.value.args) == 2 \
                    and isinstance(st.value.args[0], (ast.Name, ast.Constant)) \
                    and not (isinstance(st.value.args[1], ast.Constant) and st.value.args[1].value is None):
                tbl, key, dflt = st.value.func.value, st.value.args[0], st.value.args[1]
                tgt = st.targets[0]
                body = [ast.Assign(targets=[copy.deepcopy(tgt)], value=ast.Subscript(value=copy.deepcopy(tbl), slice=copy.deepcopy(key), ctx=ast.Load()))]
                orelse = [] if (isinstance(dflt, ast.Name) and dflt.id == tgt.id) else [ast.Assign(targets=[copy.deepcopy(tgt)], value=dflt)]
                g = ast.If(test=ast.Compare(left=copy.deepcopy(key), ops=[ast.In()], comparators=[copy.deepcopy(tbl)]), body=body, orelse=orelse)
                out.append(ast.copy_location(g, st))
                n_done[0] += 1
                continue
            out.append(st)
        return out
    for fn in ast.walk(tree):
        if isinstance(fn, ast.FunctionDef):
            fn.body[:] = do_block(fn.body)
    return n_done[0]


# ------------------------------------------------------------------ P1 inlining of helpers that are new since the baseline
class _Subst(ast.NodeTransformer):
    def __init__(self, env, rename):
        self.env, self.rename = env, rename

    def visit_Name(self, node):
        if node.id in self.env and isinstance(node.ctx, ast.Load):
            return copy.deepcopy(self.env[node.id])
        if node.id in self.rename:
            return ast.copy_location(ast.Name(id=self.rename[node.id], ctx=node.ctx), node)
        return node

    def visit_Lambda(self, node):
        shadow = {a.arg for a in node.args.args}
        if shadow & (set(self.env) | set(self.rename)):
            return node
        return self.generic_visit(node)


def _strip_doc(body):
    if body and isinstance(body[0], ast.Expr) and isinstance(body[0].value, ast.Constant) and isinstance(body[0].value.value, str):
        return body[1:]
    return body


def _tail_positions_ok(body):
    """every Return is the last statement of its block and every block it sits in is a tail block (if/else only)"""
    for i, st in enumerate(body):
        last = i == len(body) - 1
        if isinstance(st, ast.Return):
            if not last:
                return False
        elif isinstance(st, ast.If):
            if last:
                if not (_tail_positions_ok(st.body) and _tail_positions_ok(st.orelse)):
                    return False
            elif any(isinstance(n, ast.Return) for n in ast.walk(st)):
                return False
        elif isinstance(st, ast.Try) and last and _try_is_tail(st):
            continue
        elif any(isinstance(n, ast.Return) for n in ast.walk(st)):
            return False
    return True


def _try_is_tail(st):
    """try: ...; return E / except X: ... raise | return: every way out of the statement leaves the helper"""
    if st.orelse or st.finalbody or not st.body or not st.handlers:
        return False
    if not isinstance(st.body[-1], ast.Return) or any(isinstance(n, ast.Return) for x in st.body[:-1] for n in ast.walk(x)):
        return False
    for h in st.handlers:
        if not h.body or not isinstance(h.body[-1], (ast.Raise, ast.Return)):
            return False
        if any(isinstance(n, ast.Return) for x in h.body[:-1] for n in ast.walk(x)):
            return False
    return True


class Helper(object):
    def __init__(self, fn, cls=None):
        self.fn, self.cls = fn, cls
        self.static = any(isinstance(d, ast.Name) and d.id == 'staticmethod' for d in fn.decorator_list)
        body = _strip_doc(fn.body)
        self.ok = True
        a = fn.args
        if a.vararg or a.kwarg or a.posonlyargs or isinstance(fn, ast.AsyncFunctionDef):
            self.ok = False
        if any(not (isinstance(d, ast.Name) and d.id == 'staticmethod') for d in fn.decorator_list):
            self.ok = False
        for n in ast.walk(fn):
            if isinstance(n, (ast.Yield, ast.YieldFrom, ast.Await, ast.Nonlocal)) or (
                    n is not fn and isinstance(n, (ast.FunctionDef, ast.AsyncFunctionDef, ast.ClassDef))):
                self.ok = False
            if isinstance(n, ast.Call) and ((isinstance(n.func, ast.Name) and n.func.id == fn.name) or (
                    isinstance(n.func, ast.Attribute) and n.func.attr == fn.name)):
                self.ok = False
        self.params = [x.arg for x in a.args] + [x.arg for x in a.kwonlyargs]
        nd = len(a.defaults)
        self.defaults = {}
        for p, d in zip([x.arg for x in a.args][len(a.args) - nd:], a.defaults):
            self.defaults[p] = d
        for p, d in zip([x.arg for x in a.kwonlyargs], a.kw_defaults):
            if d is not None:
                self.defaults[p] = d
        if len(body) == 1 and isinstance(body[0], ast.Return) and body[0].value is not None:
            self.kind = 'expr'
            self.body = body
        else:
            self.kind = 'stmt'
            b = else_absorb_block(copy.deepcopy(body))
            self.body = b
            self.tail = _tail_positions_ok(b)
            self.has_return = any(isinstance(n, ast.Return) for st in b for n in ast.walk(st))
        stores = set()
        for st in body:
            for n in ast.walk(st):
                if isinstance(n, ast.Name) and isinstance(n.ctx, (ast.Store, ast.Del)):
                    stores.add(n.id)
        comp = set()
        for st in body:
            for n in ast.walk(st):
                if isinstance(n, ast.comprehension):
                    for x in ast.walk(n.target):
                        if isinstance(x, ast.Name):
                            comp.add(x.id)
        self.globals = {g for n in ast.walk(fn) if isinstance(n, ast.Global) for g in n.names}
        if self.globals & set(self.params):
            self.ok = False
        if self.kind == 'stmt':
            self.body = [st for st in self.body if not isinstance(st, ast.Global)]
        self.locals = stores - comp - self.globals
        self.reassigned = [p for p in self.params if p in self.locals]

    def bind(self, call, receiver=None):
        params = list(self.params)
        env = {}
        if self.cls is not None and not self.static:
            if not params:
                return None
            env[params[0]] = receiver
            params = params[1:]
        if any(isinstance(x, ast.Starred) for x in call.args) or any(k.arg is None for k in call.keywords):
            return None
        if len(call.args) > len(params):
            return None
        for p, v in zip(params, call.args):
            env[p] = v
        for k in call.keywords:
            if k.arg not in params or k.arg in env:
                return None
            env[k.arg] = k.value
        for p in params:
            if p not in env:
                if p in self.defaults:
                    env[p] = self.defaults[p]
                else:
                    return None
        return env


def _ret_to(body, make):
    """replace every (tail) Return by make(value); add make(None) where a tail block can fall off its end"""
    out = []
    for i, st in enumerate(body):
        last = i == len(body) - 1
        if isinstance(st, ast.Return):
            out.extend(make(st.value if st.value is not None else ast.Constant(value=None)))
        elif isinstance(st, ast.If) and last:
            st = copy.copy(st)
            st.body = _ret_to(st.body, make)
            st.orelse = _ret_to(st.orelse, make) if st.orelse else make(ast.Constant(value=None))
            out.append(st)
        elif isinstance(st, ast.Try) and last and _try_is_tail(st):
            st = copy.copy(st)
            st.body = st.body[:-1] + make(st.body[-1].value if st.body[-1].value is not None else ast.Constant(value=None))
            hs = []
            for h in st.handlers:
                h = copy.copy(h)
                if isinstance(h.body[-1], ast.Return):
                    h.body = h.body[:-1] + make(h.body[-1].value if h.body[-1].value is not None else ast.Constant(value=None))
                hs.append(h)
            st.handlers = hs
            out.append(st)
        else:
            out.append(st)
            if last and not isinstance(st, ast.Raise):
                out.extend(make(ast.Constant(value=None)))
    if not body:
        out.extend(make(ast.Constant(value=None)))
    return out


class Inliner(object):
    def __init__(self, tree, new_fns, helpers_by_origin=()):
        # helpers_by_origin: names that came into this module from a module that did not exist then (P12): helpers whatever their spelling
        self.tree = tree
        self.helpers = {}          # name -> Helper (module level) ; ('C','m') -> Helper
        self.by_method = {}
        for st in tree.body:
            if isinstance(st, ast.FunctionDef) and st.name in new_fns and (st.name.startswith('_') or st.name in helpers_by_origin) \
                    and not st.name.startswith('__'):
                h = Helper(st)
                if h.ok:
                    self.helpers[st.name] = h
            elif isinstance(st, ast.ClassDef):
                for x in st.body:
                    if isinstance(x, ast.FunctionDef) and '%s.%s' % (st.name, x.name) in new_fns and x.name.startswith('_') \
                            and not x.name.startswith('__'):
                        h = Helper(x, st.name)
                        if h.ok:
                            self.by_method.setdefault(x.name, []).append(h)
        # a method name is usable through any receiver only when it is unique in the module
        all_methods = {}
        for st in tree.body:
            if isinstance(st, ast.ClassDef):
                for x in st.body:
                    if isinstance(x, ast.FunctionDef):
                        all_methods.setdefault(x.name, []).append(st.name)
        self.by_method = {m: hs[0] for m, hs in self.by_method.items() if len(all_methods.get(m, [])) == 1 and m not in self.helpers}
        self.n = 0
        self.inlined = set()

    def match(self, call):
        f = call.func
        if isinstance(f, ast.Name) and f.id in self.helpers:
            h = self.helpers[f.id]
            env = h.bind(call)
            return (h, env) if env is not None else None
        if isinstance(f, ast.Attribute) and f.attr in self.by_method:
            h = self.by_method[f.attr]
            if h.static:
                env = h.bind(call)
            else:
                rv = f.value
                ok = isinstance(rv, ast.Name) or (isinstance(rv, ast.Attribute) and isinstance(rv.value, ast.Name)) or (
                    isinstance(rv, ast.Subscript) and isinstance(rv.value, ast.Name))
                if isinstance(rv, ast.Name) and rv.id == h.cls:
                    return None
                if not ok:
                    return None
                env = h.bind(call, rv)
            return (h, env) if env is not None else None
        return None

    def instantiate(self, h, env, caller_names, target=None):
        rename = {}
        for v in sorted(h.locals):
            if v in env:
                continue
            if v == target:
                continue        # `v = h(a)` with a helper local also called v: writing v early is harmless, the call does not read v
            if v in caller_names:
                rename[v] = '%s_%s' % (v, h.fn.name.strip('_'))
        pre = []
        env2 = dict(env)
        for p in h.reassigned:
            nm = p if p not in caller_names else '%s_%s' % (p, h.fn.name.strip('_'))
            # the caller hands over its own variable of the same name and never reads it again: the helper may go on using that name
            a_ = env.get(p)
            cur = getattr(self, 'cur_fn', None)
            at = getattr(self, 'cur_line', None)
            if nm != p and isinstance(a_, ast.Name) and a_.id == p and cur is not None and at is not None and not any(
                    isinstance(x, ast.Name) and x.id == p and isinstance(x.ctx, ast.Load) and getattr(x, 'lineno', 0) > at for x in ast.walk(cur)):
                nm = p
            if not (isinstance(env[p], ast.Name) and env[p].id == nm):
                pre.append(ast.Assign(targets=[ast.Name(id=nm, ctx=ast.Store())], value=copy.deepcopy(env[p]), lineno=h.fn.lineno))
            del env2[p]
            if nm != p:
                rename[p] = nm
        body = [_Subst(env2, rename).visit(copy.deepcopy(st)) for st in h.body]
        return pre, body

    def inline_expr_calls(self, node, caller_names):
        """expression helpers anywhere inside node (in place); returns number inlined"""
        me = self
        count = [0]

        class T(ast.NodeTransformer):
            def visit_Call(self, c):
                self.generic_visit(c)
                m = me.match(c)
                if m and m[0].kind == 'expr':
                    h, env = m
                    pre, body = me.instantiate(h, env, caller_names)
                    if pre:
                        return c
                    count[0] += 1
                    me.inlined.add(h.fn.name)
                    return ast.copy_location(body[0].value, c)
                return c
        T().visit(node)
        return count[0]

    def inline_stmt(self, st, caller_names):
        """statement helpers called as `h(..)`, `x = h(..)`, `x op= h(..)`, `return h(..)`; returns a list or None"""
        call, ctxk = None, None
        if isinstance(st, ast.Expr) and isinstance(st.value, ast.Call):
            call, ctxk = st.value, 'expr'
        elif isinstance(st, ast.Assign) and isinstance(st.value, ast.Call):
            call, ctxk = st.value, 'assign'
        elif isinstance(st, ast.AugAssign) and isinstance(st.value, ast.Call):
            call, ctxk = st.value, 'aug'
        elif isinstance(st, ast.AnnAssign) and isinstance(st.value, ast.Call):
            call, ctxk = st.value, 'ann'
        elif isinstance(st, ast.Return) and isinstance(st.value, ast.Call):
            call, ctxk = st.value, 'return'
        if call is None:
            return None
        m = self.match(call)
        if not m or m[0].kind != 'stmt':
            return None
        h, env = m
        self.cur_line = getattr(st, 'end_lineno', getattr(st, 'lineno', None))
        if ctxk != 'return' and h.has_return and not h.tail:
            return None
        if h.globals:
            # the helper rebinds module globals: possible only where the caller does not use these names as locals of its own
            cur = getattr(self, 'cur_fn', None)
            if cur is None:
                return None
            declared = {g for n in ast.walk(cur) if isinstance(n, ast.Global) for g in n.names}
            local_stores = {n.id for n in ast.walk(cur) if isinstance(n, ast.Name) and isinstance(n.ctx, (ast.Store, ast.Del))} | \
                {a.arg for a in cur.args.args + cur.args.kwonlyargs}
            if (h.globals - declared) & local_stores:
                return None
            self.need_globals = getattr(self, 'need_globals', set()) | (h.globals - declared)
        target = None
        if ctxk == 'assign' and len(st.targets) == 1 and isinstance(st.targets[0], ast.Name) \
                and not any(isinstance(x, ast.Name) and x.id == st.targets[0].id for x in ast.walk(call)):
            target = st.targets[0].id
        pre, body = self.instantiate(h, env, caller_names, target)
        self.inlined.add(h.fn.name)
        ln = st.lineno

        def fix(nodes):
            for n in nodes:
                for x in ast.walk(n):
                    if not hasattr(x, 'lineno') and isinstance(x, (ast.stmt, ast.expr)):
                        x.lineno = ln
                        x.col_offset = 0
                        x.end_lineno = ln
                        x.end_col_offset = 0
            return nodes
        if ctxk == 'return':
            if not terminates(body):
                body = body + [ast.Return(value=ast.Constant(value=None))]
            self.n += 1
            return fix(pre + body)
        if ctxk == 'expr':
            mk = lambda v: ([ast.Expr(value=v)] if any(isinstance(x, ast.Call) for x in ast.walk(v)) else [ast.Pass()])
            if not h.has_return:
                self.n += 1
                return fix(pre + (body or [ast.Pass()]))
        elif ctxk == 'assign':
            mk = lambda v: [ast.Assign(targets=copy.deepcopy(st.targets), value=v)]
        elif ctxk == 'ann':
            mk = lambda v: [ast.Assign(targets=[copy.deepcopy(st.target)], value=v)]
        else:
            mk = lambda v: [ast.AugAssign(target=copy.deepcopy(st.target), op=st.op, value=v)]
        self.n += 1
        return fix(pre + _ret_to(body, mk))

    def hoist(self, st, names):
        """calls of statement helpers nested in the expression of a simple statement are evaluated first into a temporary
        (`x = f(h(a))` -> `_t = h(a); x = f(_t)`), only where the call is evaluated unconditionally"""
        if isinstance(st, (ast.Assign, ast.AugAssign, ast.AnnAssign, ast.Return, ast.Expr)):
            field = 'value'
        elif isinstance(st, ast.If):
            field = 'test'
        else:
            return []
        root = getattr(st, field)
        if root is None:
            return []
        pre = []
        me = self

        def visit(e, top=False):
            if isinstance(e, (ast.Lambda, ast.ListComp, ast.SetComp, ast.DictComp, ast.GeneratorExp)):
                return e
            if isinstance(e, ast.IfExp):
                e.test = visit(e.test)
                return e
            if isinstance(e, ast.BoolOp):
                e.values[0] = visit(e.values[0])
                return e
            for f, v in ast.iter_fields(e):
                if isinstance(v, ast.expr):
                    setattr(e, f, visit(v))
                elif isinstance(v, list):
                    v[:] = [visit(x) if isinstance(x, ast.expr) else (visit_kw(x) if isinstance(x, ast.keyword) else x) for x in v]
            if isinstance(e, ast.Call) and not top:
                m = me.match(e)
                if m and m[0].kind == 'stmt' and (not m[0].has_return or m[0].tail):
                    me.tmp = getattr(me, 'tmp', 0) + 1
                    nm = '_%s_%d' % (m[0].fn.name.strip('_'), me.tmp)
                    names.add(nm)
                    pre.append(ast.Assign(targets=[ast.Name(id=nm, ctx=ast.Store())], value=e, lineno=st.lineno))
                    return ast.copy_location(ast.Name(id=nm, ctx=ast.Load()), e)
            return e

        def visit_kw(k):
            k.value = visit(k.value)
            return k
        setattr(st, field, visit(root, top=True))
        return pre

    def run_fn(self, fn):
        names = {n.id for n in ast.walk(fn) if isinstance(n, ast.Name)} | {a.arg for a in fn.args.args}
        self.cur_fn = fn

        def do_block(block):
            out = []
            for st in block:
                pre = self.hoist(st, names)
                if pre:
                    out.extend(do_block(pre + [st]))
                    continue
                r = self.inline_stmt(st, names)
                if r is not None:
                    out.extend(do_block(r))
                    continue
                # compound statements: recurse into their blocks, and inline expression helpers in their own expressions
                for _, b in list(_blocks(st)):
                    b[:] = do_block(b)
                out.append(st)
            return out
        self.need_globals = set()
        fn.body[:] = do_block(fn.body)
        if self.need_globals:
            pos = 1 if (fn.body and isinstance(fn.body[0], ast.Expr) and isinstance(fn.body[0].value, ast.Constant)) else 0
            fn.body.insert(pos, ast.Global(names=sorted(self.need_globals), lineno=fn.lineno, col_offset=0, end_lineno=fn.lineno, end_col_offset=0))
            self.need_globals = set()
        self.n += self.inline_expr_calls(fn, names)

    def run(self):
        for _ in range(4):
            before = self.n
            for st in self.tree.body:
                if isinstance(st, ast.FunctionDef):
                    self.run_fn(st)
                elif isinstance(st, ast.ClassDef):
                    for x in st.body:
                        if isinstance(x, ast.FunctionDef):
                            self.run_fn(x)
                elif not isinstance(st, (ast.Import, ast.ImportFrom)):
                    self.n += self.inline_expr_calls(st, set())
            if self.n == before:
                break
        # drop helper definitions that nothing refers to any more
        used = set()
        for n in ast.walk(self.tree):
            if isinstance(n, ast.Name):
                used.add(n.id)
            elif isinstance(n, ast.Attribute):
                used.add(n.attr)
            elif isinstance(n, ast.Constant) and isinstance(n.value, str) and n.value.isidentifier():
                used.add(n.value)
        dead = {h.fn for h in list(self.helpers.values()) + list(self.by_method.values()) if h.fn.name not in used and h.fn.name in self.inlined}
        if dead:
            self.tree.body[:] = [st for st in self.tree.body if st not in dead]
            for st in self.tree.body:
                if isinstance(st, ast.ClassDef):
                    st.body[:] = [x for x in st.body if x not in dead] or [ast.Pass()]
        return self.n


# ------------------------------------------------------------------ P2 constants that are new since the baseline
def _pure(e, known):
    for n in ast.walk(e):
        if isinstance(n, ast.Call):
            f = n.func
            nm = f.id if isinstance(f, ast.Name) else (f.attr if isinstance(f, ast.Attribute) else None)
            if nm not in PURE_CALLS:
                return False
        elif isinstance(n, (ast.Lambda, ast.Yield, ast.Await, ast.NamedExpr, ast.Starred, ast.GeneratorExp)):
            return False
    return True


def _immutable(e):
    if isinstance(e, ast.Constant):
        return True
    if isinstance(e, ast.Tuple):
        return all(_immutable(x) for x in e.elts)
    if isinstance(e, (ast.BinOp,)):
        return _immutable(e.left) and _immutable(e.right)
    if isinstance(e, ast.UnaryOp):
        return _immutable(e.operand)
    if isinstance(e, ast.Call):
        f = e.func
        nm = f.id if isinstance(f, ast.Name) else (f.attr if isinstance(f, ast.Attribute) else None)
        return nm in ('frozenset', 'compile', 'range', 'int', 'float', 'str', 'len', 'Decimal', 'D', 'tuple', 'min', 'max')
    if isinstance(e, (ast.Name, ast.Attribute)):
        return True         # an alias of something else: substituting the alias back changes nothing
    return False


READ_METHODS = {'get', 'items', 'keys', 'values', 'index', 'count', 'copy', 'join', 'match', 'search', 'fullmatch', 'startswith', 'endswith'}


def _readonly_uses(tree, name, depth=0):
    """every use of the name only reads it: membership, subscript load, iteration, read methods, or a local alias used that way"""
    fn_of = {}
    if depth == 0:
        for fn in ast.walk(tree):
            if isinstance(fn, ast.FunctionDef):
                for n in ast.walk(fn):
                    fn_of.setdefault(id(n), fn)        # outermost function wins; good enough for alias scoping
    for n in ast.walk(tree):
        for c in ast.iter_child_nodes(n):
            if isinstance(c, ast.Name) and c.id == name and isinstance(c.ctx, ast.Load):
                if isinstance(n, ast.Compare) and c in n.comparators:
                    continue
                if isinstance(n, ast.Subscript) and n.value is c and isinstance(n.ctx, ast.Load):
                    continue
                if isinstance(n, (ast.For, ast.comprehension)) and n.iter is c:
                    continue
                if isinstance(n, ast.Attribute) and n.attr in READ_METHODS:
                    continue
                if isinstance(n, ast.Call) and isinstance(n.func, ast.Name) and n.func.id in ('len', 'sorted', 'enumerate', 'tuple', 'frozenset', 'set',
                                                                                             'list', 'dict', 'min', 'max', 'any', 'all', 'sum', 'zip'):
                    continue
                if depth == 0 and isinstance(n, ast.Assign) and n.value is c and len(n.targets) == 1 and isinstance(n.targets[0], ast.Name) \
                        and id(n) in fn_of:
                    f = fn_of[id(n)]
                    alias = n.targets[0].id
                    mutated = any((isinstance(x, (ast.Subscript, ast.Attribute)) and isinstance(x.ctx, (ast.Store, ast.Del))
                                   and isinstance(x.value, ast.Name) and x.value.id == alias)
                                  or (isinstance(x, ast.Call) and isinstance(x.func, ast.Attribute) and x.func.attr in MUTATORS
                                      and isinstance(x.func.value, ast.Name) and x.func.value.id == alias) for x in ast.walk(f))
                    if not mutated and _readonly_uses(f, alias, 1):
                        continue
                return False
    return True


def subst_new_constants(tree, new_consts):
    """module-level (and class-level) names assigned once, new since the baseline, never mutated: substituted into their uses"""
    cand = {}
    counts = {}
    for st in tree.body:
        for nm in assigned_names(st):
            counts[nm] = counts.get(nm, 0) + 1
    for st in tree.body:
        if isinstance(st, (ast.Assign, ast.AnnAssign)) and st.value is not None:
            tg = st.targets if isinstance(st, ast.Assign) else [st.target]
            if len(tg) == 1 and isinstance(tg[0], ast.Name) and tg[0].id in new_consts and counts.get(tg[0].id) == 1 and _pure(st.value, cand) \
                    and (_immutable(st.value) or _readonly_uses(tree, tg[0].id)):
                cand[tg[0].id] = (st, st.value)
            elif len(tg) == 1 and isinstance(tg[0], ast.Tuple) and all(isinstance(e, ast.Name) and e.id in new_consts and counts.get(e.id) == 1
                                                                      for e in tg[0].elts):
                vals = None
                if isinstance(st.value, (ast.Tuple, ast.List)) and len(st.value.elts) == len(tg[0].elts):
                    vals = st.value.elts
                elif isinstance(st.value, ast.Call) and isinstance(st.value.func, ast.Name) and st.value.func.id == 'range' \
                        and len(st.value.args) == 1 and isinstance(st.value.args[0], ast.Constant) and st.value.args[0].value == len(tg[0].elts):
                    vals = [ast.Constant(value=i) for i in range(len(tg[0].elts))]
                if vals is not None and all(_pure(v, cand) for v in vals):
                    for e, v in zip(tg[0].elts, vals):
                        cand[e.id] = (st, v)
    # never mutated, never rebound in a function, never declared global
    for n in ast.walk(tree):
        if isinstance(n, ast.Global):
            for nm in n.names:
                cand.pop(nm, None)
        elif isinstance(n, ast.Call) and isinstance(n.func, ast.Attribute) and n.func.attr in MUTATORS and isinstance(n.func.value, ast.Name):
            cand.pop(n.func.value.id, None)
        elif isinstance(n, (ast.Subscript, ast.Attribute)) and isinstance(n.ctx, (ast.Store, ast.Del)) and isinstance(n.value, ast.Name):
            cand.pop(n.value.id, None)
    for fn in ast.walk(tree):
        if isinstance(fn, (ast.FunctionDef, ast.Lambda)):
            loc = {a.arg for a in fn.args.args + fn.args.kwonlyargs}
            body = fn.body if isinstance(fn.body, list) else [fn.body]
            for st in body:
                for n in ast.walk(st):
                    if isinstance(n, ast.Name) and isinstance(n.ctx, ast.Store):
                        loc.add(n.id)
            for nm in loc:
                cand.pop(nm, None)
    if not cand:
        return 0
    defs = {id(st) for st, _ in cand.values()}
    env = {}
    # resolve constants defined through earlier new constants
    for nm, (st, v) in cand.items():
        env[nm] = v
    for _ in range(3):
        for nm in list(env):
            env[nm] = _Subst({k: v for k, v in env.items() if k != nm}, {}).visit(copy.deepcopy(env[nm]))
    n = [0]

    class T(ast.NodeTransformer):
        def visit_Name(self, node):
            if isinstance(node.ctx, ast.Load) and node.id in env:
                n[0] += 1
                return ast.copy_location(copy.deepcopy(env[node.id]), node)
            return node
    keep = []
    for st in tree.body:
        if id(st) in defs:
            continue
        keep.append(T().visit(st))
    tree.body[:] = keep
    return n[0]


# ------------------------------------------------------------------ P0 private helpers that were only renamed get their old name back
def rename_map(trees, baseline):
    """{new name: old name} for private functions / methods whose old name vanished and whose shape (fingerprint) is unchanged"""
    out = {}
    for rel, tree in trees.items():
        base = (baseline or {}).get(rel)
        if not base or 'fingerprints' not in base:
            continue
        # private module-level variables first: the old name vanished, one new private name is bound to the same initial value
        pv = base.get('private_values') or {}
        now_pv = {}
        for st in tree.body:
            if isinstance(st, (ast.Assign, ast.AnnAssign)) and st.value is not None:
                tg = st.targets if isinstance(st, ast.Assign) else [st.target]
                if len(tg) == 1 and isinstance(tg[0], ast.Name) and tg[0].id.startswith('_') and not tg[0].id.startswith('__'):
                    now_pv[tg[0].id] = ast.unparse(st.value)[:200]
        all_now = set(module_names(tree)[0]) | set(module_names(tree)[1])
        gone_v = {n: v for n, v in pv.items() if n not in all_now}
        new_v = {n: v for n, v in now_pv.items() if n not in pv and n not in base.get('constants', []) and n not in base.get('functions', [])}
        vmap = {}
        for n_old, v_old in gone_v.items():
            c_new = [n for n, v in new_v.items() if v == v_old]
            c_old = [n for n, v in gone_v.items() if v == v_old]
            if len(c_new) == 1 and len(c_old) == 1:
                vmap[c_new[0]] = n_old
        if vmap:
            out.update(vmap)
            tree = copy.deepcopy(tree)
            _Rename(vmap).visit(tree)
        now = module_fingerprints(tree)
        gone = {q: fp for q, fp in base['fingerprints'].items() if q not in now and q.split('.')[-1].startswith('_')
                and not q.split('.')[-1].startswith('__')}
        new = {q: fp for q, fp in now.items() if q not in base['fingerprints'] and q.split('.')[-1].startswith('_')}
        for q_old, fp in gone.items():
            cands = [q for q, f2 in new.items() if f2 == fp and q.rsplit('.', 1)[0] == q_old.rsplit('.', 1)[0] or
                     (f2 == fp and '.' not in q and '.' not in q_old)]
            if len(cands) == 1:
                out[cands[0].split('.')[-1]] = q_old.split('.')[-1]
    # a new name must not be in use for anything else, an old name must be free
    return out


class _Rename(ast.NodeTransformer):
    def __init__(self, m):
        self.m = m

    def visit_FunctionDef(self, node):
        self.generic_visit(node)
        if node.name in self.m:
            node.name = self.m[node.name]
        return node

    def visit_Name(self, node):
        if node.id in self.m:
            node.id = self.m[node.id]
        return node

    def visit_Attribute(self, node):
        self.generic_visit(node)
        if node.attr in self.m:
            node.attr = self.m[node.attr]
        return node

    def visit_alias(self, node):
        if node.name in self.m:
            node.name = self.m[node.name]
        return node


# ------------------------------------------------------------------ P14 getattr with a constant name; a bound method held in a temporary
class _GetattrConst(ast.NodeTransformer):
    def visit_Call(self, c):
        self.generic_visit(c)
        if isinstance(c.func, ast.Name) and c.func.id == 'getattr' and len(c.args) == 2 and not c.keywords \
                and isinstance(c.args[1], ast.Constant) and isinstance(c.args[1].value, str) and c.args[1].value.isidentifier():
            return ast.copy_location(ast.Attribute(value=c.args[0], attr=c.args[1].value, ctx=ast.Load()), c)
        return c


def bound_method_temporaries(tree):
    """`t = x.m` directly followed by the only use of t, a call `t(...)`, with t assigned nowhere else: the call is written x.m(...)"""
    n = 0
    for fn in ast.walk(tree):
        if not isinstance(fn, (ast.FunctionDef, ast.AsyncFunctionDef)):
            continue
        stores, loads = {}, {}
        for x in ast.walk(fn):
            if isinstance(x, ast.Name):
                (stores if isinstance(x.ctx, (ast.Store, ast.Del)) else loads).setdefault(x.id, []).append(x)
        for blk_owner in ast.walk(fn):
            for _nm, blk in _blocks(blk_owner):
                i = 0
                while i + 1 < len(blk):
                    st, nx = blk[i], blk[i + 1]
                    if isinstance(st, ast.Assign) and len(st.targets) == 1 and isinstance(st.targets[0], ast.Name) \
                            and isinstance(st.value, ast.Attribute) and isinstance(st.value.value, ast.Name):
                        t = st.targets[0].id
                        uses = loads.get(t, [])
                        if len(stores.get(t, [])) == 1 and len(uses) == 1:
                            callee = [c for c in ast.walk(nx) if isinstance(c, ast.Call) and c.func is uses[0]]
                            first = next((x for x in ast.walk(nx) if isinstance(x, (ast.Call, ast.Name))), None)
                            if callee and isinstance(nx, (ast.Expr, ast.Assign, ast.Return)) and (
                                    (isinstance(nx, ast.Expr) and nx.value is callee[0]) or (not isinstance(nx, ast.Expr) and nx.value is callee[0])):
                                callee[0].func = st.value
                                del blk[i]
                                n += 1
                                continue
                    i += 1
    return n


# ------------------------------------------------------------------ P15 a local that only stands for a module global
def global_aliases(tree):
    """`x = G` where G is a module-level name that the function does not rebind afterwards and x is a local assigned only there:
    every read of x is a read of G (single-threaded semantics), so x is replaced by G and the assignment dropped."""
    mod_names = set()
    for st in tree.body:
        if isinstance(st, (ast.FunctionDef, ast.ClassDef)):
            mod_names.add(st.name)
        else:
            mod_names.update(assigned_names(st))
    n = 0
    for fn in ast.walk(tree):
        if not isinstance(fn, ast.FunctionDef):
            continue
        params = {a.arg for a in fn.args.args + fn.args.kwonlyargs + fn.args.posonlyargs}
        declared = {g for x in ast.walk(fn) if isinstance(x, ast.Global) for g in x.names}
        stores = {}
        for x in ast.walk(fn):
            if isinstance(x, ast.Name) and isinstance(x.ctx, (ast.Store, ast.Del)):
                stores.setdefault(x.id, []).append(x)
        nested = [x for x in ast.walk(fn) if x is not fn and isinstance(x, (ast.FunctionDef, ast.Lambda, ast.ClassDef))]
        for i, st in enumerate(list(fn.body)):
            if not (isinstance(st, ast.Assign) and len(st.targets) == 1 and isinstance(st.targets[0], ast.Name) and isinstance(st.value, ast.Name)):
                continue
            x, g = st.targets[0].id, st.value.id
            if x in params or x in declared or len(stores.get(x, [])) != 1 or g not in mod_names or g in params:
                continue
            if g in stores and g not in declared:
                continue                          # g is a local of this function
            if any(s_.lineno >= st.lineno for s_ in stores.get(g, [])):
                continue                          # the global is rebound after the alias was taken
            if nested:
                continue
            calls_after = False
            for later in fn.body[fn.body.index(st) + 1:]:
                for c in ast.walk(later):
                    if isinstance(c, ast.Call):
                        calls_after = True
            # a call after the alias may rebind the global only if some function of the module assigns it; the alias then differs
            rebinders = [f for f in ast.walk(tree) if isinstance(f, ast.FunctionDef) and f is not fn and any(
                isinstance(y, ast.Global) and g in y.names for y in ast.walk(f))]
            if calls_after and rebinders:
                called = {c.func.id for later in fn.body[fn.body.index(st) + 1:] for c in ast.walk(later)
                          if isinstance(c, ast.Call) and isinstance(c.func, ast.Name)}
                if called & {f.name for f in rebinders}:
                    continue
            for y in ast.walk(fn):
                if isinstance(y, ast.Name) and y.id == x and isinstance(y.ctx, ast.Load):
                    y.id = g
            fn.body.remove(st)
            n += 1
    return n


# ------------------------------------------------------------------ P17 a, b = x, y with independent sides is a = x; b = y
def split_tuple_assignments(tree):
    n = 0
    for owner in ast.walk(tree):
        for _nm, blk in _blocks(owner):
            i = 0
            while i < len(blk):
                st = blk[i]
                # a, b, c = (f(k) for k in ('x', 'y', 'z')): the comprehension over a literal sequence is the tuple it yields
                if isinstance(st, ast.Assign) and len(st.targets) == 1 and isinstance(st.targets[0], ast.Tuple) \
                        and isinstance(st.value, (ast.GeneratorExp, ast.ListComp)) and len(st.value.generators) == 1:
                    g_ = st.value.generators[0]
                    if not g_.ifs and not g_.is_async and isinstance(g_.target, ast.Name) and isinstance(g_.iter, (ast.Tuple, ast.List)) \
                            and all(isinstance(e_, ast.Constant) for e_ in g_.iter.elts) and len(g_.iter.elts) == len(st.targets[0].elts):
                        var_ = g_.target.id

                        class _K(ast.NodeTransformer):
                            def __init__(self, c):
                                self.c = c

                            def visit_Name(self, node):
                                if node.id == var_ and isinstance(node.ctx, ast.Load):
                                    return ast.copy_location(ast.Constant(value=self.c), node)
                                return node
                        st.value = ast.copy_location(ast.Tuple(elts=[_K(e_.value).visit(copy.deepcopy(st.value.elt)) for e_ in g_.iter.elts], ctx=ast.Load()), st.value)
                        ast.fix_missing_locations(st)
                if isinstance(st, ast.Assign) and len(st.targets) == 1 and isinstance(st.targets[0], ast.Tuple) and isinstance(st.value, ast.Tuple) \
                        and len(st.targets[0].elts) == len(st.value.elts) and all(isinstance(t, ast.Name) for t in st.targets[0].elts) \
                        and not any(isinstance(v, ast.Starred) for v in st.value.elts):
                    tnames = {t.id for t in st.targets[0].elts}
                    used = {x.id for v in st.value.elts for x in ast.walk(v) if isinstance(x, ast.Name)}
                    pure = not any(isinstance(x, (ast.Call, ast.Await, ast.Yield, ast.NamedExpr)) for v in st.value.elts for x in ast.walk(v))
                    if not (tnames & used) and len(tnames) == len(st.targets[0].elts) and pure:
                        new = [ast.copy_location(ast.Assign(targets=[t], value=v), st) for t, v in zip(st.targets[0].elts, st.value.elts)]
                        blk[i:i + 1] = new
                        n += 1
                        i += len(new)
                        continue
                i += 1
    return n


# ------------------------------------------------------------------ P18 x = next((E for T in IT if C), D) is the loop it abbreviates
def next_to_loop(tree):
    """`x = next((E for T in IT if C), D)` -> `for T in IT: if C: x = E; break` / `else: x = D` (the loop variable must not be in use
    elsewhere in the function, since a generator has its own scope and a for statement does not)"""
    n = 0
    for fn in [x for x in ast.walk(tree) if isinstance(x, ast.FunctionDef)]:
        names_in_fn = {}
        for x in ast.walk(fn):
            if isinstance(x, ast.Name):
                names_in_fn[x.id] = names_in_fn.get(x.id, 0) + 1
        for owner in ast.walk(fn):
            for _nm, blk in _blocks(owner):
                for i, st in enumerate(list(blk)):
                    if not (isinstance(st, ast.Assign) and len(st.targets) == 1 and isinstance(st.targets[0], ast.Name) and isinstance(st.value, ast.Call)
                            and isinstance(st.value.func, ast.Name) and st.value.func.id == 'next' and len(st.value.args) == 2 and not st.value.keywords
                            and isinstance(st.value.args[0], ast.GeneratorExp) and len(st.value.args[0].generators) == 1):
                        continue
                    g = st.value.args[0]
                    gen = g.generators[0]
                    if gen.is_async or not isinstance(gen.target, (ast.Name, ast.Tuple)):
                        continue
                    tnames = {x.id for x in ast.walk(gen.target) if isinstance(x, ast.Name)}
                    inside = {}
                    for x in ast.walk(g):
                        if isinstance(x, ast.Name) and x.id in tnames:
                            inside[x.id] = inside.get(x.id, 0) + 1
                    if any(names_in_fn.get(t, 0) != inside.get(t, 0) for t in tnames) or st.targets[0].id in tnames:
                        continue
                    hit = [ast.Assign(targets=[copy.deepcopy(st.targets[0])], value=g.elt), ast.Break()]
                    body = [ast.If(test=(gen.ifs[0] if len(gen.ifs) == 1 else ast.BoolOp(op=ast.And(), values=list(gen.ifs))), body=hit, orelse=[])] if gen.ifs else hit
                    loop = ast.For(target=gen.target, iter=gen.iter, body=body,
                                   orelse=[ast.Assign(targets=[copy.deepcopy(st.targets[0])], value=st.value.args[1])], type_comment=None)
                    for t_ in ast.walk(loop):
                        if isinstance(t_, ast.Name) and t_.id in tnames and t_ in ast.walk(gen.target):
                            t_.ctx = ast.Store()
                    ast.copy_location(loop, st)
                    blk[blk.index(st)] = loop
                    ast.fix_missing_locations(loop)
                    n += 1
    return n


# ------------------------------------------------------------------ P19 a temporary that is copied back into the variable it stands for
def rename_accumulators(tree):
    """In one block: `t = E0` ... `c = t`, where t is used nowhere else in the function, c is neither read nor written between the two
    statements (E0 itself may read c), is the same as working on c directly: t is renamed to c and the copy dropped."""
    n = 0
    for fn in [x for x in ast.walk(tree) if isinstance(x, ast.FunctionDef)]:
        shared = {g for x in ast.walk(fn) if isinstance(x, (ast.Global, ast.Nonlocal)) for g in x.names}
        for owner in ast.walk(fn):
            for _nm, blk in _blocks(owner):
                changed = True
                while changed:
                    changed = False
                    for j, st in enumerate(blk):
                        if not (isinstance(st, ast.Assign) and len(st.targets) == 1 and isinstance(st.targets[0], ast.Name) and isinstance(st.value, ast.Name)):
                            continue
                        c, t = st.targets[0].id, st.value.id
                        if c == t or c in shared or t in shared:
                            continue            # a global is published by the copy: building it in a local first is the point (C16)
                        starts = [i for i in range(j) if isinstance(blk[i], ast.Assign) and len(blk[i].targets) == 1
                                  and isinstance(blk[i].targets[0], ast.Name) and blk[i].targets[0].id == t]
                        if not starts:
                            continue
                        i = starts[0]
                        span = blk[i:j]
                        all_t = [x for x in ast.walk(fn) if isinstance(x, ast.Name) and x.id == t]
                        in_span = [x for s_ in span for x in ast.walk(s_) if isinstance(x, ast.Name) and x.id == t]
                        if len(all_t) != len(in_span) + 1:
                            continue            # t lives outside the span too
                        if t in {a.arg for a in fn.args.args + fn.args.kwonlyargs}:
                            continue
                        c_in_span = [x for k_, s_ in enumerate(span) for x in ast.walk(s_ if k_ else ast.Expr(value=ast.Constant(value=0)))
                                     if isinstance(x, ast.Name) and x.id == c]
                        first_targets = [x for x in ast.walk(span[0].targets[0])]
                        if c_in_span:
                            continue
                        if any(isinstance(x, (ast.FunctionDef, ast.Lambda, ast.Return, ast.Raise, ast.Break, ast.Continue)) for s_ in span for x in ast.walk(s_)):
                            continue
                        for x in in_span:
                            x.id = c
                        del blk[j]
                        n += 1
                        changed = True
                        break
    return n


# ------------------------------------------------------------------ P20 a local that only names a field of another local
def field_temporaries(tree):
    """`x = b['k']` / `x = b.k` at the top level of a function, x assigned only there, b (a local or parameter) neither rebound nor
    changed in place afterwards: x is replaced by the field it names (coefficients unpacked into A, Z, X)."""
    n = 0
    for fn in [f for f in ast.walk(tree) if isinstance(f, ast.FunctionDef)]:
        if any(isinstance(x, (ast.FunctionDef, ast.Lambda, ast.ClassDef)) for x in ast.walk(fn) if x is not fn):
            continue
        params = {a.arg for a in fn.args.args + fn.args.kwonlyargs + fn.args.posonlyargs}
        shared = {g for x in ast.walk(fn) if isinstance(x, (ast.Global, ast.Nonlocal)) for g in x.names}
        stores = {}
        for x in ast.walk(fn):
            if isinstance(x, ast.Name) and isinstance(x.ctx, (ast.Store, ast.Del)):
                stores.setdefault(x.id, []).append(x)
        for st in list(fn.body):
            if not (isinstance(st, ast.Assign) and len(st.targets) == 1 and isinstance(st.targets[0], ast.Name)):
                continue
            x, v = st.targets[0].id, st.value
            if x in params or x in shared or len(stores.get(x, [])) != 1:
                continue
            # a chain of constant / name subscripts and attributes over one root name: T[key]['A'], row.code
            chain, names_used = v, set()
            okc = isinstance(v, (ast.Subscript, ast.Attribute))
            while isinstance(chain, (ast.Subscript, ast.Attribute)):
                if isinstance(chain, ast.Subscript):
                    if isinstance(chain.slice, ast.Name):
                        names_used.add(chain.slice.id)
                    elif not isinstance(chain.slice, ast.Constant):
                        okc = False
                chain = chain.value
            if not okc or not isinstance(chain, ast.Name) or chain.id == 'self':
                continue
            b = chain.id
            if b == x or x in names_used:
                continue
            if b in shared:
                # a module global as root: nothing called afterwards may rebind it
                rebinders = {f.name for f in ast.walk(tree) if isinstance(f, ast.FunctionDef) and any(
                    isinstance(y, ast.Global) and b in y.names for y in ast.walk(f))}
                called_later = {c.func.id for later_st in fn.body[fn.body.index(st) + 1:] for c in ast.walk(later_st)
                                if isinstance(c, ast.Call) and isinstance(c.func, ast.Name)}
                if called_later & rebinders:
                    continue
            if any(s_.lineno >= st.lineno for nm_ in ({b} | names_used) for s_ in stores.get(nm_, [])):
                continue
            later = [y for later_st in fn.body[fn.body.index(st) + 1:] for y in ast.walk(later_st)]
            mutated = any(
                (isinstance(y, (ast.Subscript, ast.Attribute)) and isinstance(y.ctx, (ast.Store, ast.Del)) and isinstance(y.value, ast.Name) and y.value.id == b)
                or (isinstance(y, ast.Call) and isinstance(y.func, ast.Attribute) and isinstance(y.func.value, ast.Name) and y.func.value.id == b
                    and y.func.attr in MUTATORS)
                or (isinstance(y, ast.Call) and any(isinstance(a, ast.Name) and a.id == b for a in y.args))
                for y in later)
            if mutated:
                continue
            for y in later:
                if isinstance(y, ast.Name) and y.id == x and isinstance(y.ctx, ast.Load):
                    pass
            class _T(ast.NodeTransformer):
                def visit_Name(self, node):
                    if node.id == x and isinstance(node.ctx, ast.Load):
                        return ast.copy_location(copy.deepcopy(v), node)
                    return node
            idx = fn.body.index(st)
            for k in range(idx + 1, len(fn.body)):
                fn.body[k] = _T().visit(fn.body[k])
            fn.body.remove(st)
            n += 1
    return n


# ------------------------------------------------------------------ P21 a local dict literal read only by constant keys is its scalars
def explode_local_records(tree):
    """`d = {'a': e1, 'b': e2}` in a function, d assigned only there and used only as d['a'] / d['b'] loads: the entries become the
    locals d_a, d_b (evaluated in the same order at the same place)."""
    n = 0
    for fn in [f for f in ast.walk(tree) if isinstance(f, ast.FunctionDef)]:
        parent = {}
        for p_ in ast.walk(fn):
            for c in ast.iter_child_nodes(p_):
                parent[id(c)] = p_
        names = {x.id for x in ast.walk(fn) if isinstance(x, ast.Name)} | {a.arg for a in fn.args.args}
        for owner in ast.walk(fn):
            for _nm, blk in _blocks(owner):
                for st in list(blk):
                    if not (isinstance(st, ast.Assign) and len(st.targets) == 1 and isinstance(st.targets[0], ast.Name) and isinstance(st.value, ast.Dict)
                            and st.value.keys and all(isinstance(k, ast.Constant) and isinstance(k.value, str) and k.value.isidentifier() for k in st.value.keys)):
                        continue
                    d = st.targets[0].id
                    occ = [x for x in ast.walk(fn) if isinstance(x, ast.Name) and x.id == d]
                    stores = [x for x in occ if isinstance(x.ctx, (ast.Store, ast.Del))]
                    if len(stores) != 1:
                        continue
                    keys = [k.value for k in st.value.keys]
                    ok = True
                    for x in occ:
                        if x is stores[0]:
                            continue
                        par = parent.get(id(x))
                        if not (isinstance(par, ast.Subscript) and par.value is x and isinstance(par.ctx, ast.Load) and isinstance(par.slice, ast.Constant)
                                and par.slice.value in keys):
                            ok = False
                    new_names = {k: '%s_%s' % (d, k) for k in keys}
                    if not ok or any(v in names for v in new_names.values()) or len(set(keys)) != len(keys):
                        continue

                    class _T(ast.NodeTransformer):
                        def visit_Subscript(self, node):
                            self.generic_visit(node)
                            if isinstance(node.value, ast.Name) and node.value.id == d and isinstance(node.slice, ast.Constant) and node.slice.value in new_names:
                                return ast.copy_location(ast.Name(id=new_names[node.slice.value], ctx=ast.Load()), node)
                            return node
                    repl = [ast.copy_location(ast.Assign(targets=[ast.Name(id=new_names[k.value], ctx=ast.Store())], value=v), st)
                            for k, v in zip(st.value.keys, st.value.values)]
                    i = blk.index(st)
                    blk[i:i + 1] = repl
                    for k_ in range(len(fn.body)):
                        fn.body[k_] = _T().visit(fn.body[k_])
                    ast.fix_missing_locations(fn)
                    n += 1
    return n


# ------------------------------------------------------------------ P22 try: x = T[k] / except KeyError: <leave>  is the membership test
def keyerror_to_membership(tree):
    """`try: x = T[k]` `except KeyError: <body that leaves>` (nothing else in the try, no else / finally, T and k plain names) is
    `if k not in T: <body>` followed by `x = T[k]`: for a dict the lookup raises KeyError exactly when the key is missing."""
    n = 0
    for owner in ast.walk(tree):
        for _nm, blk in _blocks(owner):
            i = 0
            while i < len(blk):
                st = blk[i]
                if isinstance(st, ast.Try) and len(st.body) == 1 and len(st.handlers) == 1 and not st.orelse and not st.finalbody \
                        and isinstance(st.body[0], ast.Assign) and len(st.body[0].targets) == 1 and isinstance(st.body[0].targets[0], ast.Name) \
                        and isinstance(st.body[0].value, ast.Subscript) and isinstance(st.body[0].value.value, ast.Name) \
                        and isinstance(st.body[0].value.slice, ast.Name) and isinstance(st.handlers[0].type, ast.Name) and st.handlers[0].type.id == 'KeyError' \
                        and st.handlers[0].name is None and terminates(st.handlers[0].body):
                    sub = st.body[0].value
                    test = ast.Compare(left=ast.Name(id=sub.slice.id, ctx=ast.Load()), ops=[ast.NotIn()], comparators=[ast.Name(id=sub.value.id, ctx=ast.Load())])
                    guard = ast.copy_location(ast.If(test=test, body=st.handlers[0].body, orelse=[]), st)
                    blk[i:i + 1] = [guard, st.body[0]]
                    ast.fix_missing_locations(guard)
                    n += 1
                    i += 2
                    continue
                i += 1
    return n


# ------------------------------------------------------------------ P23 returns in the tail of an if-chain become one result variable
def single_exit(tree):
    """A function that ends `<if-chain>; return D` where every return inside the chain is the last statement of its block and every
    block on the way is the last statement of its parent (so nothing runs after it but the final return): the chain assigns a result
    variable, initialised to D, and the function returns it once."""
    n = 0
    for fn in [f for f in ast.walk(tree) if isinstance(f, ast.FunctionDef)]:
        if len(fn.body) < 2 or not isinstance(fn.body[-1], ast.Return) or fn.body[-1].value is None or not isinstance(fn.body[-2], ast.If):
            continue
        chain = fn.body[-2]
        if not any(isinstance(x, ast.Return) for x in ast.walk(chain)):
            continue
        if not _tail_positions_ok([chain]) or any(isinstance(x, (ast.Try, ast.With, ast.For, ast.While, ast.FunctionDef, ast.Lambda)) for x in ast.walk(chain)):
            continue
        if any(isinstance(x, ast.Return) and x.value is None for x in ast.walk(chain)):
            continue
        names = {x.id for x in ast.walk(fn) if isinstance(x, ast.Name)} | {a.arg for a in fn.args.args}
        res = 'points' if 'points' not in names else ('result' if 'result' not in names else None)
        if res is None:
            continue

        class _T(ast.NodeTransformer):
            def visit_Return(self, node):
                return ast.copy_location(ast.Assign(targets=[ast.Name(id=res, ctx=ast.Store())], value=node.value), node)
        init = ast.copy_location(ast.Assign(targets=[ast.Name(id=res, ctx=ast.Store())], value=fn.body[-1].value), chain)
        fn.body[-2] = _T().visit(chain)
        fn.body[-1] = ast.copy_location(ast.Return(value=ast.Name(id=res, ctx=ast.Load())), fn.body[-1])
        fn.body.insert(len(fn.body) - 2, init)
        ast.fix_missing_locations(fn)
        n += 1
    return n


# ------------------------------------------------------------------ P13 a record class that did not exist then is the dict it replaced
def records_to_dicts(tree, new_names):
    """P13.  `class C(NamedTuple)` with plain fields, new since the baseline, whose instances are only built (C(...), x._replace(...)),
    stored, handed on and read field by field: every instance becomes the dict {'field': value}, `x.f` becomes x['f'] and
    `x._replace(f=v)` becomes dict(x, f=v).  Reading a field of an immutable record and reading a key of a dict that nobody writes
    are the same observation.  Anything else done with an instance (unpacking, iteration, indexing by position, comparison, a call
    that receives it) leaves the module untouched.  Returns the number of classes rewritten."""
    classes = {}
    for st in tree.body:
        if isinstance(st, ast.ClassDef) and st.name in new_names and not st.decorator_list and not st.keywords \
                and any(ast.unparse(b).split('.')[-1] == 'NamedTuple' for b in st.bases):
            fields, ok, defaults = [], True, {}
            for x in _strip_doc(st.body):
                if isinstance(x, ast.AnnAssign) and isinstance(x.target, ast.Name):
                    fields.append(x.target.id)
                    if x.value is not None:
                        defaults[x.target.id] = x.value
                elif isinstance(x, ast.Pass):
                    continue
                else:
                    ok = False
            if ok and fields:
                classes[st.name] = (fields, defaults, st)
    if not classes:
        return 0
    allfields = {f for c in classes.values() for f in c[0]}
    parent = {}
    for p_ in ast.walk(tree):
        for c in ast.iter_child_nodes(p_):
            parent[id(c)] = p_

    def is_ctor(e):
        if not (isinstance(e, ast.Call) and isinstance(e.func, ast.Name) and e.func.id in classes):
            return False
        if not e.args and len(e.keywords) == 1 and e.keywords[0].arg is None:
            return True      # C(**row): row supplies exactly the fields, or every use of the table fails with a TypeError
        return not any(isinstance(a, ast.Starred) for a in e.args) and not any(k.arg is None for k in e.keywords)

    # names that hold records (flow-insensitive, whole module: module constants, locals, loop variables over record containers)
    rec, cont = set(), set()
    for _ in range(6):
        n0 = (len(rec), len(cont))
        for n in ast.walk(tree):
            if isinstance(n, (ast.Assign, ast.AnnAssign)) and n.value is not None:
                tg = n.targets if isinstance(n, ast.Assign) else [n.target]
                v = n.value

                def is_rec(e):
                    return is_ctor(e) or (isinstance(e, ast.Name) and e.id in rec) or (
                        isinstance(e, ast.Call) and isinstance(e.func, ast.Attribute) and e.func.attr == '_replace'
                        and isinstance(e.func.value, ast.Name) and e.func.value.id in rec) or (
                        isinstance(e, ast.Subscript) and isinstance(e.value, ast.Name) and e.value.id in cont) or (
                        isinstance(e, ast.Call) and isinstance(e.func, ast.Attribute) and e.func.attr == 'get'
                        and isinstance(e.func.value, ast.Name) and e.func.value.id in cont and len(e.args) == 1) or (
                        isinstance(e, ast.IfExp) and is_rec(e.body) and is_rec(e.orelse))
                for t in tg:
                    if isinstance(t, ast.Name) and is_rec(v):
                        rec.add(t.id)
                    elif isinstance(t, ast.Subscript) and isinstance(t.value, ast.Name) and is_rec(v):
                        cont.add(t.value.id)
                    elif isinstance(t, ast.Name) and isinstance(v, ast.Name) and v.id in cont:
                        cont.add(t.id)
                    elif isinstance(t, ast.Name) and isinstance(v, (ast.Dict,)) and v.values and all(is_rec(x) for x in v.values):
                        cont.add(t.id)
                    elif isinstance(t, ast.Name) and isinstance(v, ast.DictComp) and is_rec(v.value):
                        cont.add(t.id)
        if (len(rec), len(cont)) == n0:
            break
    # every use of a field attribute must be on a record name; every use of a record name must be one of the harmless kinds
    in_annotation = set()
    for n in ast.walk(tree):
        for a in ([n.annotation] if isinstance(n, (ast.AnnAssign, ast.arg)) and n.annotation is not None else []) + \
                ([n.returns] if isinstance(n, ast.FunctionDef) and n.returns is not None else []):
            in_annotation |= {id(x) for x in ast.walk(a)}
    for n in ast.walk(tree):
        if id(n) in in_annotation:
            continue
        if isinstance(n, ast.Attribute) and n.attr in allfields:
            if not (isinstance(n.value, ast.Name) and n.value.id in rec and isinstance(n.ctx, ast.Load)):
                return 0
        if isinstance(n, ast.Name) and n.id in classes:
            par = parent.get(id(n))
            if isinstance(par, ast.Call) and par.func is n and is_ctor(par):
                continue
            if isinstance(par, ast.ClassDef):
                continue
            return 0
        if isinstance(n, ast.Name) and n.id in rec and isinstance(n.ctx, ast.Load):
            par = parent.get(id(n))
            if isinstance(par, ast.Attribute) and (par.attr in allfields or par.attr == '_replace'):
                continue
            if isinstance(par, (ast.Assign, ast.AnnAssign, ast.Return, ast.IfExp)):
                continue
            if isinstance(par, ast.Compare) and len(par.ops) == 1 and isinstance(par.ops[0], (ast.Is, ast.IsNot)):
                continue
            if isinstance(par, ast.Dict):
                continue
            return 0
    # annotations that name the class go (they say nothing at run time)
    for n in ast.walk(tree):
        if isinstance(n, ast.arg) and n.annotation is not None and any(isinstance(x, ast.Name) and x.id in classes for x in ast.walk(n.annotation)):
            n.annotation = None
        if isinstance(n, ast.FunctionDef) and n.returns is not None and any(isinstance(x, ast.Name) and x.id in classes for x in ast.walk(n.returns)):
            n.returns = None

    class T(ast.NodeTransformer):
        def visit_Call(self, c):
            self.generic_visit(c)
            if is_ctor(c) and not c.args and len(c.keywords) == 1 and c.keywords[0].arg is None:
                return ast.copy_location(ast.Call(func=ast.Name(id='dict', ctx=ast.Load()), args=[c.keywords[0].value], keywords=[]), c)
            if is_ctor(c):
                fields, defaults, _ = classes[c.func.id]
                vals = dict(zip(fields, c.args))
                for k in c.keywords:
                    vals[k.arg] = k.value
                for f in fields:
                    if f not in vals and f in defaults:
                        vals[f] = copy.deepcopy(defaults[f])
                if set(vals) != set(fields):
                    return c
                return ast.copy_location(ast.Dict(keys=[ast.Constant(value=f) for f in fields], values=[vals[f] for f in fields]), c)
            if isinstance(c.func, ast.Attribute) and c.func.attr == '_replace' and isinstance(c.func.value, ast.Name) and c.func.value.id in rec:
                return ast.copy_location(ast.Call(func=ast.Name(id='dict', ctx=ast.Load()), args=[c.func.value], keywords=c.keywords), c)
            return c

        def visit_Attribute(self, a):
            self.generic_visit(a)
            if a.attr in allfields and isinstance(a.value, ast.Name) and a.value.id in rec and isinstance(a.ctx, ast.Load):
                return ast.copy_location(ast.Subscript(value=a.value, slice=ast.Constant(value=a.attr), ctx=ast.Load()), a)
            return a

        def visit_AnnAssign(self, n):
            self.generic_visit(n)
            if any(isinstance(x, ast.Name) and x.id in classes for x in ast.walk(n.annotation)):
                if n.value is None:
                    return None
                return ast.copy_location(ast.Assign(targets=[n.target], value=n.value), n)
            return n
    T().visit(tree)
    tree.body[:] = [st for st in tree.body if not (isinstance(st, ast.ClassDef) and st.name in classes)]
    ast.fix_missing_locations(tree)
    return len(classes)


# ------------------------------------------------------------------ P16 a function that consults two event-family patterns becomes a chain
def _kind_atom(e):
    """(pattern name, subject text) when e is PAT_X.match(name) / .search(name) / name in X"""
    if isinstance(e, ast.Call) and isinstance(e.func, ast.Attribute) and e.func.attr in ('match', 'search', 'fullmatch') \
            and isinstance(e.func.value, ast.Name) and e.func.value.id.isupper() and len(e.args) == 1 and isinstance(e.args[0], ast.Name) and not e.keywords:
        return (e.func.value.id, e.args[0].id)
    return None


def case_split_kinds(tree):
    """P16.  A function whose top-level statements consult exactly two different patterns P, Q on the same unchanged name x (in the
    tests of ifs, or held in boolean locals) is rewritten, from the first such statement on, as
        if P.match(x): <rest, specialised for P matched>  elif Q.match(x): <rest, P failed and Q matched>  else: <rest, both failed>
    where specialising means: the pattern tests and the locals that only hold them are replaced by their known truth values and
    every if whose test is thereby decided is replaced by the branch taken.  The tests are pure, so evaluating them once more or
    once less changes nothing; functions that already are such a chain are left alone.  Returns the number of functions rewritten."""
    n_done = 0
    for fn in [x for x in ast.walk(tree) if isinstance(x, ast.FunctionDef)]:
        atoms = {}
        for n in ast.walk(fn):
            a = _kind_atom(n)
            if a:
                atoms.setdefault(a, []).append(n)
        subjects = {a[1] for a in atoms}
        pats = [a[0] for a in atoms]
        if len(subjects) != 1 or len(set(pats)) != 2:
            continue
        subj = list(subjects)[0]
        # first top-level statement that mentions an atom
        i0 = None
        for i, st in enumerate(fn.body):
            if any(_kind_atom(x) for x in ast.walk(st)):
                i0 = i
                break
        if i0 is None:
            continue
        # defaults set just before the first test (`points = 0`) belong to every arm
        while i0 > 0 and isinstance(fn.body[i0 - 1], ast.Assign) and len(fn.body[i0 - 1].targets) == 1 \
                and isinstance(fn.body[i0 - 1].targets[0], ast.Name) and isinstance(fn.body[i0 - 1].value, ast.Constant) \
                and fn.body[i0 - 1].targets[0].id != subj:
            i0 -= 1
        tail = fn.body[i0:]
        if any(isinstance(x, ast.Name) and x.id == subj and isinstance(x.ctx, (ast.Store, ast.Del)) for st in tail for x in ast.walk(st)):
            continue
        if any(isinstance(x, (ast.FunctionDef, ast.Lambda, ast.ClassDef, ast.Try, ast.While, ast.For, ast.With)) for st in tail for x in ast.walk(st)):
            continue
        # order of consultation = order of first occurrence
        order = []
        for st in tail:
            for x in ast.walk(st):
                a = _kind_atom(x)
                if a and a[0] not in order:
                    order.append(a[0])
        # already an if / elif chain on the two atoms with nothing else mentioning them: leave it
        first = next((st for st in tail if any(_kind_atom(x) for x in ast.walk(st))), tail[0])
        if first is tail[0] and isinstance(first, ast.If) and _kind_atom(first.test) and len(first.orelse) == 1 and isinstance(first.orelse[0], ast.If) \
                and _kind_atom(first.orelse[0].test) and sum(len(v) for v in atoms.values()) == 2:
            continue
        P_, Q_ = order[0], order[1]

        def spec(stmts, known, names):
            out = []
            for st in stmts:
                st = copy.deepcopy(st)
                if isinstance(st, ast.Assign) and len(st.targets) == 1 and isinstance(st.targets[0], ast.Name):
                    v = truth(st.value, known, names)
                    if v is not None and any(_kind_atom(x) for x in ast.walk(st.value)):
                        names[st.targets[0].id] = v
                        continue
                if isinstance(st, ast.If):
                    v = truth(st.test, known, names)
                    if v is True:
                        out.extend(spec(st.body, known, names))
                        continue
                    if v is False:
                        out.extend(spec(st.orelse, known, names))
                        continue
                    st.test = subst(st.test, known, names)
                    st.body = spec(st.body, known, dict(names)) or [ast.Pass()]
                    st.orelse = spec(st.orelse, known, dict(names))
                    out.append(st)
                    continue
                out.append(substs(st, known, names))
            return out

        def truth(e, known, names):
            a = _kind_atom(e)
            if a:
                return known.get(a[0])
            if isinstance(e, ast.Name) and e.id in names:
                return names[e.id]
            if isinstance(e, ast.Constant) and isinstance(e.value, bool):
                return e.value
            if isinstance(e, ast.UnaryOp) and isinstance(e.op, ast.Not):
                v = truth(e.operand, known, names)
                return None if v is None else (not v)
            if isinstance(e, ast.Call) and isinstance(e.func, ast.Name) and e.func.id == 'bool' and len(e.args) == 1:
                return truth(e.args[0], known, names)
            if isinstance(e, ast.Compare) and len(e.ops) == 1 and isinstance(e.ops[0], (ast.Is, ast.IsNot)) \
                    and isinstance(e.comparators[0], ast.Constant) and e.comparators[0].value is None:
                v = truth(e.left, known, names)
                if v is None or not (_kind_atom(e.left) or (isinstance(e.left, ast.Name) and e.left.id in names)):
                    return None
                return (not v) if isinstance(e.ops[0], ast.Is) else v
            if isinstance(e, ast.BoolOp):
                vs = [truth(x, known, names) for x in e.values]
                if isinstance(e.op, ast.And):
                    if any(v is False for v in vs):
                        return False
                    return True if all(v is True for v in vs) else None
                if any(v is True for v in vs):
                    return True
                return False if all(v is False for v in vs) else None
            return None

        class _S(ast.NodeTransformer):
            def __init__(self, known, names):
                self.known, self.names = known, names

            def visit_IfExp(self, e):
                v = truth(e.test, self.known, self.names)
                if v is True:
                    return self.visit(e.body)
                if v is False:
                    return self.visit(e.orelse)
                self.generic_visit(e)
                return e

        def subst(e, known, names):
            return _S(known, names).visit(e)

        def substs(st, known, names):
            return _S(known, names).visit(st)
        try:
            arm_p = spec(tail, {P_: True}, {})
            arm_q = spec(tail, {P_: False, Q_: True}, {})
            arm_n = spec(tail, {P_: False, Q_: False}, {})
        except RecursionError:
            continue
        # every mention of the atoms / their locals must be gone from the arms that decide them
        if any(_kind_atom(x) for st in arm_q + arm_n for x in ast.walk(st)) or any(
                _kind_atom(x) and _kind_atom(x)[0] == P_ for st in arm_p for x in ast.walk(st)):
            continue
        def test_of(pat):
            return copy.deepcopy(atoms[[a for a in atoms if a[0] == pat][0]][0])
        chain = ast.If(test=test_of(P_), body=arm_p or [ast.Pass()],
                       orelse=[ast.If(test=test_of(Q_), body=arm_q or [ast.Pass()], orelse=arm_n)])
        ast.copy_location(chain, first)
        fn.body[i0:] = [chain]
        ast.fix_missing_locations(fn)
        n_done += 1
    return n_done


# ------------------------------------------------------------------ P12 a module that did not exist then is folded back into its importer
def _resolve_from(rel, node):
    """rel path of the module an ImportFrom in module `rel` names, or None"""
    if node.level:
        base = os.path.dirname(rel)
        for _ in range(node.level - 1):
            base = os.path.dirname(base)
        parts = (node.module or '').split('.') if node.module else []
        cand = os.path.join(base, *parts)
    else:
        if not node.module or not (node.module == 'athlib' or node.module.startswith('athlib.')):
            return None
        cand = os.path.join(*node.module.split('.'))
    return cand + '.py'


def _absolutise(rel_new, st):
    """an import of the new module, rewritten so that it means the same when it stands in another module"""
    if isinstance(st, ast.ImportFrom) and st.level:
        base = os.path.dirname(rel_new)
        for _ in range(st.level - 1):
            base = os.path.dirname(base)
        mod = '.'.join([x for x in base.split(os.sep) if x] + ([st.module] if st.module else []))
        return ast.ImportFrom(module=mod, names=st.names, level=0)
    return st


def fold_back_new_modules(d, baseline):
    """P12.  A module N that is not in the baseline and from which a baseline module M imports names at top level is the result of
    moving code out of M: the import statement in M is replaced by N's own imports and definitions (an `a as b` import adds `b = a`).
    Done only when N consists of imports, definitions and assignments, defines every imported name, and none of its other names
    clashes with a name of M.  N is removed from the view when nothing else imports it.  Returns the rel paths changed."""
    if not baseline:
        return [], {}
    trees, changed, names_in = {}, [], {}
    for root, _, fs in os.walk(os.path.join(d, 'athlib')):
        for f in fs:
            if f.endswith('.py'):
                p = os.path.join(root, f)
                try:
                    trees[os.path.relpath(p, d)] = ast.parse(open(p, encoding='utf-8').read())
                except SyntaxError:
                    pass
    new_mods = {rel for rel in trees if rel not in baseline}
    if not new_mods:
        return [], {}
    folded = set()
    for rel, tree in sorted(trees.items()):
        if rel in new_mods:
            continue
        body, did = [], False
        own = set()
        for st in tree.body:
            if isinstance(st, (ast.FunctionDef, ast.ClassDef)):
                own.add(st.name)
            else:
                own.update(assigned_names(st))
        for st in tree.body:
            tgt = _resolve_from(rel, st) if isinstance(st, ast.ImportFrom) else None
            if tgt not in new_mods or any(a.name == '*' for a in st.names):
                body.append(st)
                continue
            nt = copy.deepcopy(trees[tgt])
            nbody = [x for x in _strip_doc(nt.body)
                     if not (isinstance(x, (ast.Assign, ast.AnnAssign)) and assigned_names(x) and
                             all(n.startswith('__') and n.endswith('__') for n in assigned_names(x)))]     # __all__ of N says nothing in M
            ok = all(isinstance(x, (ast.Import, ast.ImportFrom, ast.FunctionDef, ast.ClassDef, ast.Assign, ast.AnnAssign)) or
                     (isinstance(x, ast.Expr) and isinstance(x.value, ast.Constant)) for x in nbody)
            defined = set()
            for x in nbody:
                if isinstance(x, (ast.FunctionDef, ast.ClassDef)):
                    defined.add(x.name)
                elif isinstance(x, (ast.Import, ast.ImportFrom)):
                    defined.update((a.asname or a.name).split('.')[0] for a in x.names)
                else:
                    defined.update(assigned_names(x))
            wanted = {a.name for a in st.names}
            local_defs = {x.name for x in nbody if isinstance(x, (ast.FunctionDef, ast.ClassDef))} | \
                {n for x in nbody if isinstance(x, (ast.Assign, ast.AnnAssign)) for n in assigned_names(x)}
            clash = (local_defs - wanted) & own
            if not ok or not wanted <= defined or clash:
                body.append(st)
                continue
            for x in nbody:
                if isinstance(x, ast.ImportFrom) and _resolve_from(tgt, x) == rel:
                    continue                     # names of M itself
                if isinstance(x, ast.Expr):
                    continue
                body.append(_absolutise(tgt, x))
            for a in st.names:
                if a.asname and a.asname != a.name:
                    body.append(ast.Assign(targets=[ast.Name(id=a.asname, ctx=ast.Store())], value=ast.Name(id=a.name, ctx=ast.Load()),
                                           lineno=st.lineno))
            folded.add(tgt)
            names_in.setdefault(rel, set()).update(local_defs)
            did = True
        if did:
            tree.body[:] = body
            ast.fix_missing_locations(tree)
            try:
                src = ast.unparse(tree) + '\n'
                ast.parse(src)
            except (SyntaxError, ValueError, RecursionError):
                continue
            open(os.path.join(d, rel), 'w', encoding='utf-8').write(src)
            trees[rel] = ast.parse(src)
            changed.append(rel)
    for tgt in folded:
        still = False
        for rel, tree in trees.items():
            if rel == tgt:
                continue
            for st in ast.walk(tree):
                if isinstance(st, ast.ImportFrom) and _resolve_from(rel, st) == tgt:
                    still = True
                elif isinstance(st, ast.Import) and any(a.name == tgt[:-3].replace(os.sep, '.') for a in st.names):
                    still = True
        if not still:
            try:
                os.remove(os.path.join(d, tgt))
            except OSError:
                pass
    return changed, names_in


# ------------------------------------------------------------------ driver
# (name, control-flow form or None, rewrite .get lookups as membership tests)
VIEWS = [('helpers', (None, False)), ('nested', ('nested', False)), ('flat', ('flat', False)),
         ('lookups', (None, True)), ('lookups+nested', ('nested', True)), ('lookups+flat', ('flat', True)),
         ('kinds', (None, False, True)), ('kinds+nested', ('nested', False, True))]


def normalise_source(src, rel, baseline, cf=None, lookups=True, renames=None, folded_names=(), split=False):
    tree = ast.parse(src)
    n_ren = 0
    if renames:
        before_r = ast.dump(tree)
        _Rename(renames).visit(tree)
        n_ren = int(ast.dump(tree) != before_r)
    base = (baseline or {}).get(rel)
    fns, consts = module_names(tree)
    new_fns = set(fns) - set(base['functions']) if base else set(fns)
    new_consts = set(consts) - set(base['constants']) if base else set()
    changed = n_ren
    if new_fns:
        try:
            changed += records_to_dicts(tree, new_fns)
        except (ValueError, RecursionError):
            pass
        fns, consts = module_names(tree)
        new_fns = set(fns) - set(base['functions']) if base else set(fns)
        new_consts = set(consts) - set(base['constants']) if base else set()
    if new_fns:
        changed += Inliner(tree, new_fns, folded_names).run()
        try:
            # records built by helpers that have just been inlined are visible as constructor calls only now
            if records_to_dicts(tree, new_fns):
                changed += 1
        except (ValueError, RecursionError):
            pass
        explode_local_records(tree)
    if new_consts:
        changed += subst_new_constants(tree, {c for c in new_consts if '.' not in c})
    before = ast.dump(tree)
    next_to_loop(tree)
    split_tuple_assignments(tree)
    global_aliases(tree)
    _GetattrConst().visit(tree)
    bound_method_temporaries(tree)
    PercentFormats().visit(tree)
    MembershipDisplays().visit(tree)
    if lookups:
        keyerror_to_membership(tree)
        get_to_membership(tree)
        get_found_to_membership(tree)
        get_default_to_if(tree)
        DictLiteralGet().visit(tree)
    rename_accumulators(tree)
    if split:
        # the rewrites that also reshape code the rules already recognise as written are confined to the `kinds` views
        field_temporaries(tree)
        single_exit(tree)
        case_split_kinds(tree)
    if cf:
        apply_cf(tree, cf)
    if ast.dump(tree) != before:
        changed += 1
    ast.fix_missing_locations(tree)
    return (ast.unparse(tree) + '\n') if changed else None


def make_view(repo_root, cf=None, lookups=True, split=False):
    """scratch copy of the tree with every athlib/*.py normalised; returns (dir, [files changed])"""
    baseline = load_baseline()
    d = tempfile.mkdtemp(prefix='athlib-view-')
    changed = []
    for rel in COPY:
        src = os.path.join(repo_root, rel)
        dst = os.path.join(d, rel)
        if os.path.isdir(src):
            shutil.copytree(src, dst, ignore=shutil.ignore_patterns('__pycache__', '*.pyc'))
        elif os.path.exists(src):
            os.makedirs(os.path.dirname(dst), exist_ok=True)
            shutil.copy(src, dst)
    folded_names = {}
    try:
        ch, folded_names = fold_back_new_modules(d, baseline)
        changed += ch
    except (OSError, ValueError, RecursionError):
        pass
    trees = {}
    for root, _, fs in os.walk(os.path.join(d, 'athlib')):
        for f in fs:
            if f.endswith('.py'):
                p = os.path.join(root, f)
                try:
                    trees[os.path.relpath(p, d)] = ast.parse(open(p, encoding='utf-8').read())
                except SyntaxError:
                    pass
    renames = rename_map(trees, baseline)
    for root, _, fs in os.walk(os.path.join(d, 'athlib')):
        for f in fs:
            if not f.endswith('.py'):
                continue
            p = os.path.join(root, f)
            rel = os.path.relpath(p, d)
            try:
                s = open(p, encoding='utf-8').read()
                s2 = normalise_source(s, rel, baseline, cf, lookups, renames, folded_names.get(rel, ()), split)
            except (SyntaxError, RecursionError, ValueError):
                continue
            if s2 is not None:
                try:
                    ast.parse(s2)
                except SyntaxError:
                    continue
                open(p, 'w', encoding='utf-8').write(s2)
                if rel not in changed:
                    changed.append(rel)
    return d, changed
