"""./check <ID> [--tier quick|thorough] [--repo DIR] [--replay FILE]   |   ./check selfcheck | list"""
import argparse
import importlib
import json
import os
import sys
import traceback

from .core import (AnalysisError, Context, VERIF, split_findings, write_evidence, write_replay)
from .src import Repo

PROPS = ['C%02d' % i for i in range(1, 20)]


def load_check(pid):
    try:
        return importlib.import_module('sa.props.%s' % pid.lower())
    except ModuleNotFoundError as e:
        if e.name == 'sa.props.%s' % pid.lower():
            return None
        raise


_ANCHORS = None


def anchor_files(pid):
    global _ANCHORS
    if _ANCHORS is None:
        _ANCHORS = {}
        with open(os.path.join(VERIF, 'properties.jsonl')) as f:
            for line in f:
                p = json.loads(line)
                _ANCHORS[p['id']] = [x for x in p.get('anchors', {}).get('files', []) if x.endswith('.py')]
    return _ANCHORS.get(pid, [])


def history_prepass(ctx, repo, pid):
    """rule HIST, shared by every property except C16 (which has its own idiom table): the answers the property speaks
    about are functions of the arguments, so no function of the property's anchor files may keep a memo that is not
    transparent (sa/memo.py M1-M3) or change an entry of a shared table in place"""
    if pid == 'C16':
        return
    from .memo import scan_files
    files = [f for f in anchor_files(pid) if os.path.isfile(os.path.join(repo.root, f))]
    res, n_fn = scan_files(repo, files)
    # only the functions the property speaks about: the call-graph closure of its entry points (sa/scope.py)
    from .scope import hist_scope
    sc = hist_scope(repo, pid)
    if sc is not None:
        scope, missing = sc
        if missing:
            raise AnalysisError('anchor vanished: entry point(s) %s' % ', '.join(missing))
        extra = sorted({rel for rel, q in scope} - set(files))
        if extra:
            res2, n2 = scan_files(repo, extra)
            res += res2
        res = [r for r in res if (r[0], r[1]) in scope]
        n_fn = len(scope)
    ctx.rule('HIST', 'no function in the call-graph closure of the property\'s entry points keeps a non-transparent memo (key = plain arguments, complete, stores what it '
                     'returns) or changes an entry of a shared table in place')
    seen = set()
    for rel, q, rule, msg, node in res:
        k = (rel, q, rule)
        if k in seen:
            continue
        seen.add(k)
        ctx.finding('HIST', '%s::%s::%s' % (rel, q, {'ALIAS': 'shared entry changed in place', 'STALE': 'derived attribute not invalidated'}.get(rule, 'memo ' + rule)), rel, node.lineno, msg,
                    'the same function called twice in one process with inputs the memo key does not separate')
    ctx.count('functions scanned for history dependence', n_fn)
    # rule GEN: value-independent hazards (sa/hazards.py) in the same scope
    if sc is not None:
        from .hazards import scan as hz_scan
        ctx.rule('GEN', 'no position tested for truth, no loop variable surviving a handled error, no module-level one-shot iterator, no '
                        'string collection with an element made of adjacent literals, in the functions / modules the property speaks about')
        hz, n_h = hz_scan(repo, scope)
        for rel, q, rule, line, msg, key in hz:
            ctx.finding('GEN', '%s::%s::%s %s' % (rel, q, rule, key), rel, line, msg)
        if not hz:
            ctx.ok('GEN', '%d functions: none of the four hazards' % n_h)
    if not res:
        ctx.ok('HIST', '%d functions reachable from the entry points: no opaque memo, no shared entry changed in place' % n_fn)


def analyse(pid, tier, root, seed):
    """one run of the property's rules on one tree; returns (ctx, None) or (ctx, (kind, message))"""
    mod = load_check(pid)
    ctx = Context(pid, tier, root, seed)
    try:
        repo = Repo(root)
        history_prepass(ctx, repo, pid)
        mod.run(ctx, repo)
        ctx.check_floors()
        return ctx, None
    except AnalysisError as e:
        return ctx, ('analysis', str(e))
    except Exception as e:    # a traceback is an analyser failure, never a verdict
        return ctx, ('internal', '%s: %s' % (type(e).__name__, e), traceback.format_exc())


def reconcile(pid, tier, repo_root, seed, ctx, err):
    """the source as written did not come out clean: decide each failing rule on the normalised views of the same program
    (sa/views.py), built one after the other until every failing rule has been recognised somewhere.  Returns (ctx to report, err, runs)."""
    import hashlib
    import shutil
    from .views import VIEWS, make_view
    runs = [('source as written', ctx, err)]
    seen = set()
    NEVER = {'HIST', 'GEN'}   # these report a construct that is there (a memo, a hazard), not a shape that is missing: a view never clears them
    state = {'primary': None, 'pname': None, 'failing': set(), 'cleared': {}}

    def clean_for(c, r):
        if [f for f in split_findings(c)[0] if f.rule == r]:
            return False
        if [o for o in c.obligations if o[0] == r and o[2]]:
            return True
        # a rule that never records a held obligation (it only reports): clean when the source run shows none either
        return not [o for o in ctx.obligations if o[0] == r and o[2]] and r in getattr(c, 'rules', {r: 1})

    def absorb(name, c, e):
        if e is not None:
            return
        if state['primary'] is None:
            state['primary'], state['pname'] = c, name
            state['failing'] = {f.rule for f in split_findings(c)[0]} - NEVER
            for n2, c2, e2 in runs:          # earlier complete runs cannot exist (the first complete run is the primary)
                pass
            return
        for r in sorted(state['failing'] - set(state['cleared'])):
            if clean_for(c, r):
                state['cleared'][r] = name
    absorb('source as written', ctx, err)
    for name, vcfg in VIEWS:
        cf, lookups = vcfg[0], vcfg[1]
        split = vcfg[2] if len(vcfg) > 2 else False
        if state['primary'] is not None and not (state['failing'] - set(state['cleared'])):
            break
        d, changed = make_view(repo_root, cf, lookups, split)
        try:
            if not changed:
                continue
            h = hashlib.sha256()
            for rel in sorted(changed):
                h.update(rel.encode())
                h.update(open(os.path.join(d, rel), 'rb').read())
            if h.hexdigest() in seen:
                continue
            seen.add(h.hexdigest())
            cv, ev = analyse(pid, tier, d, seed)
            cv.repo = repo_root
            vname = 'view `%s`' % name
            runs.append((vname, cv, ev))
            absorb(vname, cv, ev)
        finally:
            shutil.rmtree(d, ignore_errors=True)
    primary, pname, cleared = state['primary'], state['pname'], state['cleared']
    if primary is None:
        return ctx, err, runs
    if primary is not ctx:
        primary.info('the source as written could not be analysed (%s); the verdict is that of the %s, which computes the same thing' % (
            err[1] if err else 'findings', pname))
    if cleared:
        for r, n in cleared.items():
            primary.info('rule %s: the shape it looks for was not recognised in the %s and was recognised, and holds, in the %s' % (r, pname, n))
        primary.findings = [f for f in primary.findings if f.rule not in cleared]
        primary.obligations = [o for o in primary.obligations if o[2] or o[0] not in cleared]
    primary.extra['views'] = [{'run': n, 'complete': e is None, 'new_findings': len(split_findings(c)[0])} for n, c, e in runs]
    return primary, None, runs


def run_check(pid, tier, repo_root, seed, replay=None, quiet=False, evidence=True):
    mod = load_check(pid)
    if mod is None:
        print('ANALYSIS-ERROR property=%s no check is built for this property' % pid)
        return 2
    level = getattr(mod, 'LEVEL', 'other')
    ctx, err = analyse(pid, tier, repo_root, seed)
    if err is not None or split_findings(ctx)[0]:
        if os.environ.get('SA_NO_VIEWS') != '1':
            try:
                ctx, err, _ = reconcile(pid, tier, repo_root, seed, ctx, err)
            except Exception as e:
                ctx.info('views not built: %s: %s' % (type(e).__name__, e))
    if err is not None:
        if err[0] == 'analysis' and split_findings(ctx)[0]:
            # the part of the analysis that ran already found new violations; the part that could not run is reported as a note
            ctx.info('analysis incomplete: %s' % err[1])
            return finish(ctx, pid, tier, repo_root, level, replay, quiet, evidence)
        print('ANALYSIS-ERROR property=%s %s%s' % (pid, 'internal error: ' if err[0] == 'internal' else '', err[1]))
        if err[0] == 'internal':
            sys.stderr.write(err[2])
        try:
            if evidence:
                write_evidence(ctx, level, [], [], 'analysis-error: %s' % (err[1] if err[0] == 'analysis' else 'internal'))
        except Exception:
            pass
        return 2
    return finish(ctx, pid, tier, repo_root, level, replay, quiet, evidence)


def finish(ctx, pid, tier, repo_root, level, replay, quiet, evidence):
    new, kf, returned, absent_open = split_findings(ctx)
    if replay:
        with open(replay) as f:
            want = {(x['property'], x['rule'], x['construct']) for x in json.load(f)['findings']}
        hit = [f for f in ctx.findings if f.key() in want]
        for f in hit:
            print('REPLAY reproduced: ' + f.text())
        for k in want - {f.key() for f in hit}:
            print('REPLAY not reproduced on this tree: %s %s [%s]' % k)
    if not quiet:
        print('== %s tier=%s repo=%s' % (pid, tier, repo_root))
        for rid, text in ctx.rules.items():
            print('   rule %s: %s' % (rid, text))
        for k, v in ctx.analysed.items():
            print('   analysed %s: %s' % (k, v if not isinstance(v, (list, dict)) else json.dumps(v, default=str)[:300]))
        n_ok = sum(1 for o in ctx.obligations if o[2])
        print('   obligations: %d checked, %d hold' % (len(ctx.obligations), n_ok))
        for a, b, c in ctx.floors:
            print('   floor %s: found %d (minimum %d)' % (a, b, c))
        for t in ctx.infos:
            print('   info: ' + t)
    for f, k in kf:
        print('KNOWN-FINDING: property=%s %s' % (pid, f.text()))
    for k in absent_open:
        print('   note: known finding no longer reproduced (consider marking fixed): %s [%s]' % (k['rule'], k['construct']))
    for f in new:
        tag = 'FINDING (returned after fix)' if f in returned else 'FINDING'
        print('%s: %s' % (tag, f.text()))
    status = 'violations' if new else 'holds'
    if evidence:
        write_evidence(ctx, level, new, kf, status)
    if new:
        p = write_replay(ctx, new) if evidence else '-'
        print('VIOLATION property=%s replay=%s' % (pid, p))
        return 1
    print('OK property=%s (%d obligations, %d known findings) %.2fs' % (
        pid, len(ctx.obligations), len(kf), __import__('time').time() - ctx.t0))
    return 0


def main(argv=None):
    ap = argparse.ArgumentParser(prog='check')
    ap.add_argument('what')
    ap.add_argument('--tier', default=os.environ.get('VERIF_TIER', 'quick'), choices=['quick', 'thorough'])
    ap.add_argument('--repo', default=os.environ.get('VERIF_REPO', '/repo'))
    ap.add_argument('--replay')
    ap.add_argument('--quiet', action='store_true')
    ap.add_argument('--no-evidence', action='store_true', help='selftest: do not rewrite evidence/ or out/replay')
    ap.add_argument('--only', nargs='*')
    a = ap.parse_args(argv)
    try:
        seed = int(os.environ.get('VERIF_SEED', '0'))
    except ValueError:
        seed = 0
    os.chdir(VERIF)
    if a.what == 'list':
        for p in PROPS:
            print(p, 'built' if load_check(p) else '-')
        return 0
    if a.what == 'selfcheck':
        from . import selfcheck
        return selfcheck.main()
    if a.what == 'selftest':
        from . import selftest
        return selftest.main(a.repo, set(a.only) if a.only else None)
    if a.what == 'all':
        rc = 0
        for p in PROPS:
            if load_check(p):
                rc = max(rc, run_check(p, a.tier, a.repo, seed, quiet=True))
        return rc
    pid = a.what.upper()
    if pid not in PROPS:
        print('unknown property %s' % a.what)
        return 2
    return run_check(pid, a.tier, a.repo, seed, a.replay, a.quiet, not a.no_evidence)


if __name__ == '__main__':
    sys.exit(main())
