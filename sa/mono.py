"""E7b MONO: direction/sign abstract interpretation of scoring formulas.

Abstract value = (dir, sign, lb, ub): dir in {'c' constant in the performance, 'u' weakly increasing, 'd' weakly
decreasing, '?' unknown}; sign in {'+', '0+', '-', '0-', '?'}; lb/ub numeric bounds when known (clamps).  Facts about
table-derived operands (e.g. "coeffs['A'] > 0 for every row") are supplied by the caller, who proves them over every
row.  IEEE-754 +,-,*,/ and int/floor/ceil/round/max/min are monotone, so a composition of monotone primitives stays
weakly monotone in floating point; pow(x, c) for x >= 0, c > 0 is trusted monotone (libm).
Piecewise definitions (if/else on a threshold of a monotone quantity) need a junction obligation: the piece on the
worse side must not exceed the piece on the better side at the threshold; it is discharged from clamp bounds.
"""
import ast

from .core import AnalysisError
from .src import call_name

FLIP = {'u': 'd', 'd': 'u', 'c': 'c', '?': '?'}
NEG = {'+': '-', '-': '+', '0+': '0-', '0-': '0+', '?': '?'}
MONO_UP_CALLS = {'int', 'floor', 'ceil', 'round', 'float', 'parse_hms', 'str2num', 'Decimal', 'trunc'}


class V:
    def __init__(self, d, s='?', lb=None, ub=None):
        self.d, self.s, self.lb, self.ub = d, s, lb, ub

    def __repr__(self):
        return 'V(%s,%s,%s,%s)' % (self.d, self.s, self.lb, self.ub)


def sign_of_const(c):
    return '+' if c > 0 else '-' if c < 0 else '0+'


def join_dir(a, b):
    if a == 'c':
        return b
    if b == 'c':
        return a
    return a if a == b else '?'


def nonneg(s):
    return s in ('+', '0+')


def nonpos(s):
    return s in ('-', '0-')


class Mono:
    def __init__(self, perf, facts=None, pos_diffs=None, assume=None):
        """perf: name of the performance variable; facts: {expression text: V}; pos_diffs: set of (a, b) texts with a - b > 0;
        assume: {test text: bool} for conditions that do not depend on the performance (e.g. the event kind)"""
        self.perf = perf
        self.assume = dict(assume or {})
        self.env = {perf: V('u', '?')}
        self.facts = dict(facts or {})
        self.pos = set(pos_diffs or ())
        self.notes = []

    def ev(self, e):
        t = ast.unparse(e)
        if t in self.facts:
            return self.facts[t]
        if isinstance(e, ast.Constant):
            if isinstance(e.value, bool) or not isinstance(e.value, (int, float)):
                return V('c', '?')
            return V('c', sign_of_const(e.value), e.value, e.value)
        if isinstance(e, ast.Name):
            if e.id in self.env:
                return self.env[e.id]
            return V('c', '?')
        if isinstance(e, ast.UnaryOp) and isinstance(e.op, ast.USub):
            v = self.ev(e.operand)
            return V(FLIP[v.d], NEG[v.s], None if v.ub is None else -v.ub, None if v.lb is None else -v.lb)
        if isinstance(e, ast.BinOp):
            if isinstance(e.op, ast.Add):
                a, b = self.ev(e.left), self.ev(e.right)
                s = '+' if (a.s == '+' and nonneg(b.s)) or (b.s == '+' and nonneg(a.s)) else '0+' if nonneg(a.s) and nonneg(b.s) else \
                    '-' if (a.s == '-' and nonpos(b.s)) or (b.s == '-' and nonpos(a.s)) else '0-' if nonpos(a.s) and nonpos(b.s) else '?'
                lb = a.lb + b.lb if a.lb is not None and b.lb is not None else None
                ub = a.ub + b.ub if a.ub is not None and b.ub is not None else None
                return V(join_dir(a.d, b.d), s, lb, ub)
            if isinstance(e.op, ast.Sub):
                a, b = self.ev(e.left), self.ev(e.right)
                s = '?'
                if (ast.unparse(e.left), ast.unparse(e.right)) in self.pos:
                    s = '+'
                elif (ast.unparse(e.right), ast.unparse(e.left)) in self.pos:
                    s = '-'
                elif nonneg(a.s) and nonpos(b.s):
                    s = '0+'
                return V(join_dir(a.d, FLIP[b.d]), s)
            if isinstance(e.op, (ast.Mult, ast.Div)):
                a, b = self.ev(e.left), self.ev(e.right)
                if isinstance(e.op, ast.Div):
                    if b.d != 'c':
                        # x / f(perf): only with both signs known
                        if nonneg(a.s) and b.s == '+' and a.d in ('c',):
                            return V(FLIP[b.d], '0+')
                        return V('?', '?')
                    if b.s not in ('+', '-'):
                        return V('?' if a.d != 'c' else 'c', '?')
                if a.d == 'c' and b.d == 'c':
                    s = '+' if a.s == b.s and a.s in '+-' else '-' if {a.s, b.s} == {'+', '-'} else \
                        '0+' if (nonneg(a.s) and nonneg(b.s)) or (nonpos(a.s) and nonpos(b.s)) else '?'
                    return V('c', s)
                for x, y in ((a, b), (b, a)):
                    if x.d == 'c':
                        if nonneg(x.s):
                            return V(y.d, y.s if x.s == '+' or nonneg(y.s) or nonpos(y.s) else '?')
                        if nonpos(x.s):
                            return V(FLIP[y.d], NEG[y.s])
                        return V('?', '?')
                # both depend on the performance
                if nonneg(a.s) and nonneg(b.s) and a.d == b.d:
                    return V(a.d, '0+')
                return V('?', '?')
            if isinstance(e.op, ast.Pow):
                a, b = self.ev(e.left), self.ev(e.right)
                if b.d == 'c' and b.s == '+' and nonneg(a.s):
                    return V(a.d, a.s)
                if b.d == 'c' and isinstance(e.right, ast.Constant) and e.right.value == 2:
                    if nonneg(a.s):
                        return V(a.d, '0+')
                    if nonpos(a.s):
                        return V(FLIP[a.d], '0+')
                return V('?' if a.d != 'c' else 'c', '?')
        if isinstance(e, ast.Call):
            n = call_name(e)
            if n in MONO_UP_CALLS and e.args:
                v = self.ev(e.args[0])
                lb = v.lb if n not in ('ceil',) else v.lb
                return V(v.d, v.s if n in ('float', 'parse_hms', 'str2num', 'Decimal') else ('0+' if nonneg(v.s) else '0-' if nonpos(v.s) else '?'),
                         None if v.lb is None else (int(v.lb) if float(v.lb).is_integer() else None),
                         None if v.ub is None else (int(v.ub) if float(v.ub).is_integer() else None))
            if n in ('max', 'min') and len(e.args) == 2:
                a, b = self.ev(e.args[0]), self.ev(e.args[1])
                d = join_dir(a.d, b.d)
                if n == 'max':
                    lbs = [x for x in (a.lb, b.lb) if x is not None]
                    lb = max(lbs) if lbs else None
                    ub = max(a.ub, b.ub) if a.ub is not None and b.ub is not None else None
                    s = '+' if '+' in (a.s, b.s) else '0+' if nonneg(a.s) or nonneg(b.s) else '?'
                else:
                    ubs = [x for x in (a.ub, b.ub) if x is not None]
                    ub = min(ubs) if ubs else None
                    lb = min(a.lb, b.lb) if a.lb is not None and b.lb is not None else None
                    s = '0+' if nonneg(a.s) and nonneg(b.s) else '?'
                return V(d, s, lb, ub)
            # any other call: constant in the performance if none of its arguments depends on it
            args = [self.ev(a) for a in e.args] + [self.ev(k.value) for k in e.keywords]
            if isinstance(e.func, ast.Attribute):
                args.append(self.ev(e.func.value))
            if all(a.d == 'c' for a in args):
                return V('c', '?')
            return V('?', '?')
        if isinstance(e, ast.IfExp):
            return self.piecewise(e.test, lambda: self.ev(e.body), lambda: self.ev(e.orelse), e)
        if isinstance(e, ast.Subscript):
            v = self.ev(e.value)
            return V(v.d if v.d == 'c' else '?', '?')
        if isinstance(e, ast.Attribute):
            return V('c', '?')
        return V('?', '?')

    # ---- piecewise
    def threshold(self, test):
        """(quantity V, 'upper' | 'lower': which side of the threshold makes the test true, pos-diff fact for true, for false)"""
        if isinstance(test, ast.Compare) and len(test.ops) == 1:
            l, r = test.left, test.comparators[0]
            a, b = self.ev(l), self.ev(r)
            op = test.ops[0]
            lt, rt = ast.unparse(l), ast.unparse(r)
            if isinstance(op, (ast.Gt, ast.GtE)):
                big, small, bv, sv = lt, rt, a, b
            elif isinstance(op, (ast.Lt, ast.LtE)):
                big, small, bv, sv = rt, lt, b, a
            else:
                return None
            # test true  <=>  big - small > 0 (or >= 0)
            d = join_dir(bv.d, FLIP[sv.d])       # direction of (big - small) in the performance
            if d == 'u':
                side = 'upper'
            elif d == 'd':
                side = 'lower'
            elif d == 'c':
                side = 'const'
            else:
                return None
            strict = isinstance(op, (ast.Gt, ast.Lt))
            return side, (big, small), strict
        return None

    def independent(self, test):
        """the test does not depend on the performance"""
        for n in ast.walk(test):
            if isinstance(n, ast.Name) and n.id in self.env and self.env[n.id].d != 'c':
                return False
        return True

    def piecewise(self, test, then_fn, else_fn, node):
        tt = ast.unparse(test)
        if tt in self.assume:
            return then_fn() if self.assume[tt] else else_fn()
        th = self.threshold(test)
        if th is None:
            a, b = then_fn(), else_fn()
            sj = a.s if a.s == b.s else ('0+' if nonneg(a.s) and nonneg(b.s) else '0-' if nonpos(a.s) and nonpos(b.s) else '?')
            lb = min(a.lb, b.lb) if a.lb is not None and b.lb is not None else None
            ub = max(a.ub, b.ub) if a.ub is not None and b.ub is not None else None
            if a.d == 'c' and b.d == 'c':
                return V('c', sj, lb, ub)
            if self.independent(test) and '?' not in (a.d, b.d) and {a.d, b.d} != {'u', 'd'}:
                return V(join_dir(a.d, b.d), sj, lb, ub)
            self.notes.append('condition %s is not a threshold on a monotone quantity' % tt[:60])
            return V('?', '?')
        side, (big, small), strict = th
        saved = set(self.pos)
        if strict:
            self.pos.add((big, small))
        a = then_fn()
        self.pos = set(saved)
        b = else_fn()
        self.pos = saved
        if side == 'const':
            return V(join_dir(a.d, b.d) if a.d == b.d else ('?' if '?' in (a.d, b.d) or {a.d, b.d} == {'u', 'd'} else join_dir(a.d, b.d)),
                     a.s if a.s == b.s else '?',
                     min(a.lb, b.lb) if a.lb is not None and b.lb is not None else None,
                     max(a.ub, b.ub) if a.ub is not None and b.ub is not None else None)
        upper, lower = (a, b) if side == 'upper' else (b, a)     # pieces active for larger / smaller performances
        d = join_dir(upper.d, lower.d)
        if d == '?':
            return V('?', '?')
        # junction: for 'u' need lower piece <= upper piece at the threshold; for 'd' the reverse
        want = d if d != 'c' else None
        ok_u = lower.ub is not None and upper.lb is not None and lower.ub <= upper.lb
        ok_d = lower.lb is not None and upper.ub is not None and lower.lb >= upper.ub
        if d == 'c':
            d = 'u' if ok_u else 'd' if ok_d else '?'
        elif d == 'u' and not ok_u:
            self.notes.append('junction at %s: cannot show %s <= %s' % (ast.unparse(test)[:50], 'worse-side piece', 'better-side piece'))
            d = '?'
        elif d == 'd' and not ok_d:
            self.notes.append('junction at %s: cannot show the piece for smaller performances >= the piece for larger ones' % ast.unparse(test)[:50])
            d = '?'
        lb = min(a.lb, b.lb) if a.lb is not None and b.lb is not None else None
        ub = max(a.ub, b.ub) if a.ub is not None and b.ub is not None else None
        s = a.s if a.s == b.s else ('0+' if nonneg(a.s) and nonneg(b.s) else '?')
        return V(d, s, lb, ub)

    # ---- statements (straight-line code with if/else assigning variables)
    def run(self, stmts):
        """returns list of V for the returned expressions on the paths through stmts (None if no return)"""
        rets = []
        self._block(stmts, rets)
        return rets

    def _block(self, stmts, rets):
        for st in stmts:
            if isinstance(st, ast.Expr):
                continue
            if isinstance(st, ast.Assign) and len(st.targets) == 1 and isinstance(st.targets[0], ast.Name):
                self.env[st.targets[0].id] = self.ev(st.value)
                continue
            if isinstance(st, ast.Assign) and len(st.targets) == 1 and isinstance(st.targets[0], ast.Tuple):
                # a, b = X: each name is X[i]; a fact known about X[i] carries over
                base = ast.unparse(st.value)
                for i_, x in enumerate(st.targets[0].elts):
                    if isinstance(x, ast.Name):
                        self.env[x.id] = self.facts.get('%s[%d]' % (base, i_), V('c', '?'))
                continue
            if isinstance(st, ast.AugAssign) and isinstance(st.target, ast.Name):
                cur = ast.BinOp(left=ast.Name(id=st.target.id, ctx=ast.Load()), op=st.op, right=st.value)
                self.env[st.target.id] = self.ev(cur)
                continue
            if isinstance(st, ast.Return):
                rets.append((self.ev(st.value) if st.value is not None else V('c', '?'), st))
                continue
            if isinstance(st, ast.If) and isinstance(st.test, ast.UnaryOp) and isinstance(st.test.op, ast.Not) \
                    and call_name(st.test.operand) == 'isinstance':
                # text-to-number conversion prelude: the converted value increases with the mark it denotes;
                # the arm taken by a numeric mark (the else arm, usually empty) is the one analysed
                self._block(st.orelse, rets)
                continue
            if isinstance(st, ast.If) and call_name(st.test) == 'isinstance':
                # the same prelude written the other way round: `if isinstance(perf, (int, float)): v = perf  else: <convert the text>`
                self._block(st.body, rets)
                continue
            if isinstance(st, ast.If):
                names_t = {t.id for s in ast.walk(ast.Module(body=st.body, type_ignores=[])) if isinstance(s, ast.Assign)
                           for t in s.targets if isinstance(t, ast.Name)}
                names_f = {t.id for s in ast.walk(ast.Module(body=st.orelse, type_ignores=[])) if isinstance(s, ast.Assign)
                           for t in s.targets if isinstance(t, ast.Name)}
                env0 = dict(self.env)
                holder = {}

                def then_fn(name=None):
                    self.env = dict(env0)
                    self._block(st.body, rets)
                    holder['t'] = dict(self.env)
                    return None

                def else_fn():
                    self.env = dict(env0)
                    self._block(st.orelse, rets)
                    holder['f'] = dict(self.env)
                    return None
                # evaluate both branches, then merge each assigned variable as a piecewise value
                th = self.threshold(st.test)
                saved = set(self.pos)
                if th and th[2]:
                    self.pos.add(th[1])
                then_fn()
                self.pos = set(saved)
                else_fn()
                self.pos = saved
                merged = dict(env0)
                for nm in names_t | names_f:
                    a = holder['t'].get(nm, env0.get(nm))
                    b = holder['f'].get(nm, env0.get(nm))
                    if a is None or b is None:
                        merged.pop(nm, None)
                        continue
                    self.env = dict(env0)
                    merged[nm] = self.piecewise(st.test, lambda a=a: a, lambda b=b: b, st)
                self.env = merged
                continue
            if isinstance(st, (ast.Raise, ast.Pass, ast.Assert, ast.Global)):
                continue
            raise AnalysisError('MONO: statement %s at line %d outside the supported subset' % (type(st).__name__, st.lineno))
