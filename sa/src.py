"""E1: source model of /repo (parse only; nothing is imported or executed)."""
import ast
import glob
import json
import os

from .core import AnalysisError, norm_stmt
from . import fold as foldmod


def set_parents(tree):
    tree._parent = None
    for n in ast.walk(tree):
        for c in ast.iter_child_nodes(n):
            c._parent = n
    return tree


def enclosing(node, kinds):
    p = getattr(node, '_parent', None)
    while p is not None and not isinstance(p, kinds):
        p = getattr(p, '_parent', None)
    return p


def call_name(c):
    """simple name of the callee of a Call node (Name id or Attribute attr); None for anything else"""
    if not isinstance(c, ast.Call):
        return None
    f = c.func
    if isinstance(f, ast.Name):
        return f.id
    if isinstance(f, ast.Attribute):
        return f.attr
    return None


def dotted(e):
    if isinstance(e, ast.Name):
        return e.id
    if isinstance(e, ast.Attribute):
        b = dotted(e.value)
        return b + '.' + e.attr if b else None
    return None


def unparse(n, limit=120):
    s = norm_stmt(ast.unparse(n))
    return s if len(s) <= limit else s[:limit - 3] + '...'


def stmt_key(n):
    """normalised, line-free text of a statement/expression (first line of compound statements)"""
    if isinstance(n, (ast.If, ast.While)):
        return norm_stmt(type(n).__name__.lower() + ' ' + ast.unparse(n.test))
    if isinstance(n, ast.For):
        return norm_stmt('for %s in %s' % (ast.unparse(n.target), ast.unparse(n.iter)))
    return unparse(n, 160)


def _terminates(body):
    if not body:
        return False
    last = body[-1]
    if isinstance(last, (ast.Return, ast.Raise, ast.Continue, ast.Break)):
        return True
    if isinstance(last, ast.If) and last.orelse:
        return _terminates(last.body) and _terminates(last.orelse)
    return False


def guards_of(node, fn):
    """[(test, holds)]: the tests known to hold (True) or to fail (False) whenever `node` is reached inside `fn` - the arms of the
    enclosing if / conditional expressions / short-circuit operators, asserts, and the earlier `if` statements of every enclosing
    block whose body always leaves the block (guard clauses).  A guard is dropped when a name it reads is assigned between it
    and the node.  Needs set_parents()."""
    out = []
    c, p = node, getattr(node, '_parent', None)
    while p is not None and c is not fn:
        if isinstance(p, ast.If):
            if c in p.body:
                out.append((p.test, True))
            elif c in p.orelse:
                out.append((p.test, False))
        elif isinstance(p, ast.IfExp):
            if c is p.body:
                out.append((p.test, True))
            elif c is p.orelse:
                out.append((p.test, False))
        elif isinstance(p, ast.BoolOp) and c in p.values:
            for v in p.values[:p.values.index(c)]:
                out.append((v, isinstance(p.op, ast.And)))
        if isinstance(c, ast.stmt):
            for name in ('body', 'orelse', 'finalbody'):
                blk = getattr(p, name, None)
                if isinstance(blk, list) and c in blk:
                    i = blk.index(c)
                    for k, sib in enumerate(blk[:i]):
                        between = blk[k + 1:i]
                        assigned = {n.id for st in between for n in ast.walk(st) if isinstance(n, ast.Name) and isinstance(n.ctx, ast.Store)}
                        g = None
                        if isinstance(sib, ast.If):
                            if _terminates(sib.body) and not _terminates(sib.orelse):
                                g = (sib.test, False)
                            elif sib.orelse and _terminates(sib.orelse) and not _terminates(sib.body):
                                g = (sib.test, True)
                        elif isinstance(sib, ast.Assert):
                            g = (sib.test, True)
                        if g is not None and not ({n.id for n in ast.walk(g[0]) if isinstance(n, ast.Name)} & assigned):
                            out.append(g)
        c, p = p, getattr(p, '_parent', None)
    return out


def decide_test(test, env):
    """three-valued evaluation of a test under `env` (text of a name / expression -> concrete value): True, False or None (unknown)"""
    import operator as _o
    def val(e):
        t = ast.unparse(e)
        if t in env:
            return env[t]
        if isinstance(e, ast.Constant):
            return e.value
        if isinstance(e, ast.UnaryOp) and isinstance(e.op, ast.USub):
            v = val(e.operand)
            return -v if isinstance(v, (int, float)) else KeyError
        if isinstance(e, ast.BinOp) and isinstance(e.op, (ast.Add, ast.Sub)):
            x, y = val(e.left), val(e.right)
            if isinstance(x, (int, float)) and isinstance(y, (int, float)):
                return x + y if isinstance(e.op, ast.Add) else x - y
        if isinstance(e, ast.IfExp):
            r = decide_test(e.test, env)
            if r is not None:
                return val(e.body if r else e.orelse)
        if isinstance(e, (ast.Tuple, ast.List, ast.Set)):
            vs = [val(x) for x in e.elts]
            if KeyError not in vs:
                return tuple(vs)
        return KeyError
    if isinstance(test, ast.UnaryOp) and isinstance(test.op, ast.Not):
        r = decide_test(test.operand, env)
        return None if r is None else not r
    if isinstance(test, ast.BoolOp):
        rs = [decide_test(v, env) for v in test.values]
        if isinstance(test.op, ast.And):
            return False if False in rs else (None if None in rs else True)
        return True if True in rs else (None if None in rs else False)
    if isinstance(test, ast.Compare) and len(test.ops) == 1:
        x, y = val(test.left), val(test.comparators[0])
        if x is KeyError or y is KeyError:
            return None
        op = type(test.ops[0])
        try:
            if op in (ast.In, ast.NotIn):
                return (x in y) if op is ast.In else (x not in y)
            if op in (ast.Is, ast.IsNot):
                return (x is y) if op is ast.Is else (x is not y)
            return {ast.Eq: _o.eq, ast.NotEq: _o.ne, ast.Lt: _o.lt, ast.LtE: _o.le, ast.Gt: _o.gt, ast.GtE: _o.ge}[op](x, y)
        except TypeError:
            return None
    v = val(test)
    return None if v is KeyError else bool(v)


def excluded_by_guards(node, fn, env):
    """True when, under `env`, some guard on the way to `node` is definitely violated: the node is not reached with these values"""
    for t, holds in guards_of(node, fn):
        r = decide_test(t, env)
        if r is not None and r != holds:
            return True
    return False


class Module:
    def __init__(self, repo, rel):
        self.repo = repo
        self.rel = rel
        self.path = os.path.join(repo.root, rel)
        try:
            with open(self.path, encoding='utf-8') as f:
                self.source = f.read()
        except OSError as e:
            raise AnalysisError('anchor file missing: %s (%s)' % (rel, e))
        try:
            self.tree = set_parents(ast.parse(self.source, filename=rel))
        except SyntaxError as e:
            raise AnalysisError('cannot parse %s: %s' % (rel, e))
        self.functions = {}     # qualname -> FunctionDef
        self.classes = {}
        self._index(self.tree.body, '')

    def _index(self, body, prefix):
        for st in body:
            if isinstance(st, (ast.FunctionDef, ast.AsyncFunctionDef)):
                self.functions[prefix + st.name] = st
                self._index(st.body, prefix + st.name + '.<locals>.')
            elif isinstance(st, ast.ClassDef):
                self.classes[prefix + st.name] = st
                self._index(st.body, prefix + st.name + '.')
            elif isinstance(st, (ast.If, ast.Try, ast.With, ast.For, ast.While)):
                for fld in ('body', 'orelse', 'finalbody'):
                    self._index(getattr(st, fld, []) or [], prefix)
                for h in getattr(st, 'handlers', []) or []:
                    self._index(h.body, prefix)

    def func(self, qualname):
        f = self.functions.get(qualname)
        if f is None:
            raise AnalysisError('anchor vanished: function %s in %s' % (qualname, self.rel))
        return f

    def has_func(self, qualname):
        return qualname in self.functions

    def cls(self, name):
        c = self.classes.get(name)
        if c is None:
            raise AnalysisError('anchor vanished: class %s in %s' % (name, self.rel))
        return c

    def qualname_of(self, node):
        for q, f in self.functions.items():
            if f is node:
                return q
        return '?'

    def module_assign(self, name):
        """value node of the last module-level assignment to `name` (or None)"""
        val = None
        for st in self.tree.body:
            if isinstance(st, ast.Assign):
                for t in st.targets:
                    if isinstance(t, ast.Name) and t.id == name:
                        val = st.value
            elif isinstance(st, ast.AnnAssign) and isinstance(st.target, ast.Name) and st.target.id == name:
                val = st.value
        return val


class Repo:
    PY_GLOB = 'athlib/**/*.py'

    def __init__(self, root):
        self.root = os.path.abspath(root)
        if not os.path.isdir(os.path.join(self.root, 'athlib')):
            raise AnalysisError('no athlib package under %s' % self.root)
        self._mods = {}
        self._fold = {}

    def module(self, rel):
        if rel not in self._mods:
            self._mods[rel] = Module(self, rel)
        return self._mods[rel]

    def all_python(self):
        rels = sorted(os.path.relpath(p, self.root) for p in glob.glob(os.path.join(self.root, self.PY_GLOB), recursive=True))
        return [self.module(r) for r in rels]

    def json(self, rel):
        p = os.path.join(self.root, rel)
        try:
            with open(p, encoding='utf-8') as f:
                return json.load(f)
        except (OSError, ValueError) as e:
            raise AnalysisError('cannot read JSON anchor %s: %s' % (rel, e))

    def read(self, rel):
        p = os.path.join(self.root, rel)
        try:
            with open(p, encoding='utf-8') as f:
                return f.read()
        except OSError as e:
            raise AnalysisError('anchor file missing: %s (%s)' % (rel, e))

    # ---- T-FOLD with intra-package import resolution
    def resolve_module(self, frm_rel, level, modname):
        """relative path of an athlib module named in an import, or None for external ones"""
        if level:
            base = os.path.dirname(frm_rel)
            for _ in range(level - 1):
                base = os.path.dirname(base)
            parts = [base] + (modname.split('.') if modname else [])
        else:
            if not modname or modname.split('.')[0] != 'athlib':
                return None
            parts = modname.split('.')
        cand = os.path.join(*parts)
        for c in (cand + '.py', os.path.join(cand, '__init__.py')):
            if os.path.isfile(os.path.join(self.root, c)):
                return c
        return None

    def folded(self, rel):
        """environment of module-level constants of `rel` computed by the constant folder"""
        if rel in self._fold:
            if self._fold[rel] is None:
                return {}, None      # import cycle: nothing available yet
            return self._fold[rel]
        self._fold[rel] = None
        mod = self.module(rel)
        folder = foldmod.Folder(importer=lambda level, modname, name, _rel=rel: self._import(_rel, level, modname, name))
        env = folder.fold_module(mod.tree)
        self._fold[rel] = (env, folder)
        return self._fold[rel]

    def _import(self, frm_rel, level, modname, name):
        target = self.resolve_module(frm_rel, level, modname)
        if target is None:
            raise foldmod.Unfoldable('external import %s' % modname)
        # `from athlib import X` goes through the package __init__: look for the re-export
        env, _ = self.folded(target)
        if name in env:
            v = env[name]
            if isinstance(v, foldmod.LazyImport):
                # re-export: resolve the chain relative to the module that holds it
                v = self._import(target, v.level, v.module, v.name)
                env[name] = v
            return v
        if target.endswith('__init__.py'):
            init = self.module(target)
            for st in init.tree.body:
                if isinstance(st, ast.ImportFrom):
                    for a in st.names:
                        if (a.asname or a.name) == name:
                            t2 = self.resolve_module(target, st.level, st.module)
                            if t2:
                                env2, _ = self.folded(t2)
                                if a.name in env2:
                                    return env2[a.name]
        raise foldmod.Unfoldable('import %s from %s not foldable' % (name, target))

    def const(self, rel, name):
        env, folder = self.folded(rel)
        if name not in env:
            why = folder.unfolded.get(name, 'not assigned at module level') if folder else 'import cycle'
            raise AnalysisError('cannot fold %s in %s: %s' % (name, rel, why))
        return env[name]


def raw_param_text_ops(fn):
    """[(node, message)]: operations that treat a bare parameter of `fn` as text and raise for a non-str argument (None, a number):
    sep.join((p, ...)), p.upper() / p.strip() ..., p + 'x'.  '%s' % p, str(p), format and f-strings accept anything and are not listed."""
    import ast as _ast
    params = {a.arg for a in fn.args.args + fn.args.kwonlyargs + fn.args.posonlyargs} - {'self', 'cls'}
    rebound = {n.id for n in _ast.walk(fn) if isinstance(n, _ast.Name) and isinstance(n.ctx, _ast.Store)}
    raw = params - rebound
    out = []
    for n in _ast.walk(fn):
        if isinstance(n, _ast.Call) and isinstance(n.func, _ast.Attribute):
            if n.func.attr == 'join' and len(n.args) == 1:
                a = n.args[0]
                elts = a.elts if isinstance(a, (_ast.Tuple, _ast.List)) else ([a] if isinstance(a, _ast.Name) else [])
                bad = [e.id for e in elts if isinstance(e, _ast.Name) and e.id in raw]
                if bad:
                    out.append((n, 'str.join over the raw argument(s) %s raises TypeError when one of them is not a str' % ', '.join(bad)))
            elif isinstance(n.func.value, _ast.Name) and n.func.value.id in raw and n.func.attr in (
                    'upper', 'lower', 'strip', 'lstrip', 'rstrip', 'replace', 'split', 'startswith', 'endswith', 'title', 'casefold', 'encode'):
                out.append((n, '%s.%s() raises AttributeError when the argument is not a str' % (n.func.value.id, n.func.attr)))
        if isinstance(n, _ast.BinOp) and isinstance(n.op, _ast.Add):
            for a, b in ((n.left, n.right), (n.right, n.left)):
                if isinstance(a, _ast.Name) and a.id in raw and isinstance(b, _ast.Constant) and isinstance(b.value, str):
                    out.append((n, '%s + %r raises TypeError when the argument is not a str' % (a.id, b.value)))
    return out
