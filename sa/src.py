"""E1: source model of /repo (parse only; nothing is imported or executed)."""
import ast
import glob
import json
import os

from .core import AnalysisError, norm_stmt
from . import fold as foldmod


def set_parents(tree):
    tree._parent = None
    for n in ast.walk(tree):
        for c in ast.iter_child_nodes(n):
            c._parent = n
    return tree


def enclosing(node, kinds):
    p = getattr(node, '_parent', None)
    while p is not None and not isinstance(p, kinds):
        p = getattr(p, '_parent', None)
    return p


def call_name(c):
    """simple name of the callee of a Call node (Name id or Attribute attr); None for anything else"""
    if not isinstance(c, ast.Call):
        return None
    f = c.func
    if isinstance(f, ast.Name):
        return f.id
    if isinstance(f, ast.Attribute):
        return f.attr
    return None


def dotted(e):
    if isinstance(e, ast.Name):
        return e.id
    if isinstance(e, ast.Attribute):
        b = dotted(e.value)
        return b + '.' + e.attr if b else None
    return None


def unparse(n, limit=120):
    s = norm_stmt(ast.unparse(n))
    return s if len(s) <= limit else s[:limit - 3] + '...'


def stmt_key(n):
    """normalised, line-free text of a statement/expression (first line of compound statements)"""
    if isinstance(n, (ast.If, ast.While)):
        return norm_stmt(type(n).__name__.lower() + ' ' + ast.unparse(n.test))
    if isinstance(n, ast.For):
        return norm_stmt('for %s in %s' % (ast.unparse(n.target), ast.unparse(n.iter)))
    return unparse(n, 160)


class Module:
    def __init__(self, repo, rel):
        self.repo = repo
        self.rel = rel
        self.path = os.path.join(repo.root, rel)
        try:
            with open(self.path, encoding='utf-8') as f:
                self.source = f.read()
        except OSError as e:
            raise AnalysisError('anchor file missing: %s (%s)' % (rel, e))
        try:
            self.tree = set_parents(ast.parse(self.source, filename=rel))
        except SyntaxError as e:
            raise AnalysisError('cannot parse %s: %s' % (rel, e))
        self.functions = {}     # qualname -> FunctionDef
        self.classes = {}
        self._index(self.tree.body, '')

    def _index(self, body, prefix):
        for st in body:
            if isinstance(st, (ast.FunctionDef, ast.AsyncFunctionDef)):
                self.functions[prefix + st.name] = st
                self._index(st.body, prefix + st.name + '.<locals>.')
            elif isinstance(st, ast.ClassDef):
                self.classes[prefix + st.name] = st
                self._index(st.body, prefix + st.name + '.')
            elif isinstance(st, (ast.If, ast.Try, ast.With, ast.For, ast.While)):
                for fld in ('body', 'orelse', 'finalbody'):
                    self._index(getattr(st, fld, []) or [], prefix)
                for h in getattr(st, 'handlers', []) or []:
                    self._index(h.body, prefix)

    def func(self, qualname):
        f = self.functions.get(qualname)
        if f is None:
            raise AnalysisError('anchor vanished: function %s in %s' % (qualname, self.rel))
        return f

    def has_func(self, qualname):
        return qualname in self.functions

    def cls(self, name):
        c = self.classes.get(name)
        if c is None:
            raise AnalysisError('anchor vanished: class %s in %s' % (name, self.rel))
        return c

    def qualname_of(self, node):
        for q, f in self.functions.items():
            if f is node:
                return q
        return '?'

    def module_assign(self, name):
        """value node of the last module-level assignment to `name` (or None)"""
        val = None
        for st in self.tree.body:
            if isinstance(st, ast.Assign):
                for t in st.targets:
                    if isinstance(t, ast.Name) and t.id == name:
                        val = st.value
            elif isinstance(st, ast.AnnAssign) and isinstance(st.target, ast.Name) and st.target.id == name:
                val = st.value
        return val


class Repo:
    PY_GLOB = 'athlib/**/*.py'

    def __init__(self, root):
        self.root = os.path.abspath(root)
        if not os.path.isdir(os.path.join(self.root, 'athlib')):
            raise AnalysisError('no athlib package under %s' % self.root)
        self._mods = {}
        self._fold = {}

    def module(self, rel):
        if rel not in self._mods:
            self._mods[rel] = Module(self, rel)
        return self._mods[rel]

    def all_python(self):
        rels = sorted(os.path.relpath(p, self.root) for p in glob.glob(os.path.join(self.root, self.PY_GLOB), recursive=True))
        return [self.module(r) for r in rels]

    def json(self, rel):
        p = os.path.join(self.root, rel)
        try:
            with open(p, encoding='utf-8') as f:
                return json.load(f)
        except (OSError, ValueError) as e:
            raise AnalysisError('cannot read JSON anchor %s: %s' % (rel, e))

    def read(self, rel):
        p = os.path.join(self.root, rel)
        try:
            with open(p, encoding='utf-8') as f:
                return f.read()
        except OSError as e:
            raise AnalysisError('anchor file missing: %s (%s)' % (rel, e))

    # ---- T-FOLD with intra-package import resolution
    def resolve_module(self, frm_rel, level, modname):
        """relative path of an athlib module named in an import, or None for external ones"""
        if level:
            base = os.path.dirname(frm_rel)
            for _ in range(level - 1):
                base = os.path.dirname(base)
            parts = [base] + (modname.split('.') if modname else [])
        else:
            if not modname or modname.split('.')[0] != 'athlib':
                return None
            parts = modname.split('.')
        cand = os.path.join(*parts)
        for c in (cand + '.py', os.path.join(cand, '__init__.py')):
            if os.path.isfile(os.path.join(self.root, c)):
                return c
        return None

    def folded(self, rel):
        """environment of module-level constants of `rel` computed by the constant folder"""
        if rel in self._fold:
            if self._fold[rel] is None:
                return {}, None      # import cycle: nothing available yet
            return self._fold[rel]
        self._fold[rel] = None
        mod = self.module(rel)
        folder = foldmod.Folder(importer=lambda level, modname, name, _rel=rel: self._import(_rel, level, modname, name))
        env = folder.fold_module(mod.tree)
        self._fold[rel] = (env, folder)
        return self._fold[rel]

    def _import(self, frm_rel, level, modname, name):
        target = self.resolve_module(frm_rel, level, modname)
        if target is None:
            raise foldmod.Unfoldable('external import %s' % modname)
        # `from athlib import X` goes through the package __init__: look for the re-export
        env, _ = self.folded(target)
        if name in env:
            v = env[name]
            if isinstance(v, foldmod.LazyImport):
                # re-export: resolve the chain relative to the module that holds it
                v = self._import(target, v.level, v.module, v.name)
                env[name] = v
            return v
        if target.endswith('__init__.py'):
            init = self.module(target)
            for st in init.tree.body:
                if isinstance(st, ast.ImportFrom):
                    for a in st.names:
                        if (a.asname or a.name) == name:
                            t2 = self.resolve_module(target, st.level, st.module)
                            if t2:
                                env2, _ = self.folded(t2)
                                if a.name in env2:
                                    return env2[a.name]
        raise foldmod.Unfoldable('import %s from %s not foldable' % (name, target))

    def const(self, rel, name):
        env, folder = self.folded(rel)
        if name not in env:
            why = folder.unfolded.get(name, 'not assigned at module level') if folder else 'import cycle'
            raise AnalysisError('cannot fold %s in %s: %s' % (name, rel, why))
        return env[name]
