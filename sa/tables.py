"""Exhaustive checks of the tabulated scoring systems (shared by C05 and C11).  All tables are obtained by the
constant folder (sportshall: load_data() is a nullary pure builder and is folded, not run by the VM of athlib)."""
import ast
from decimal import Decimal, InvalidOperation

from . import fold
from .core import AnalysisError
from .src import call_name

SPORTSHALL = 'athlib/sportshall_score.py'
BULGARIAN = 'athlib/bulgarian_score.py'


def sportshall_db(repo):
    env, folder = repo.folded(SPORTSHALL)
    ld = env.get('load_data')
    if not isinstance(ld, fold.FuncConst):
        raise AnalysisError('anchor vanished: sportshall load_data')
    try:
        db = fold.Folder(importer=folder.importer).call(ld, [], {})
    except Exception as e:
        raise AnalysisError('sportshall load_data() is not foldable: %s: %s' % (type(e).__name__, e))
    if not isinstance(db, dict) or not db:
        raise AnalysisError('sportshall load_data() did not fold to a table')
    return db


def sportshall_high_events(repo):
    mod = repo.module(SPORTSHALL)
    fn = mod.func('sportshall_score')
    for n in ast.walk(fn):
        if isinstance(n, ast.If) and isinstance(n.test, ast.Compare) and isinstance(n.test.ops[0], ast.In) \
                and isinstance(n.test.comparators[0], (ast.List, ast.Tuple, ast.Set)) \
                and any(isinstance(c, ast.Call) and call_name(c) == 'score_high_event' for c in ast.walk(n)):
            return [x.value for x in n.test.comparators[0].elts if isinstance(x, ast.Constant)], n
    raise AnalysisError('sportshall_score: high/low dispatch list not found')


def sportshall_problems(repo):
    """[(kind, code, message, witness)]"""
    db = sportshall_db(repo)
    high, node = sportshall_high_events(repo)
    out = []
    n_cells = 0
    for code in high:
        if code not in db:
            out.append(('dispatch', code, 'the high-scoring dispatch list names %r, which is not a table code' % code, code))
    for code, e in sorted(db.items()):
        p2p = e.get('perf2points')
        if not isinstance(p2p, list) or len(p2p) < 2:
            out.append(('shape', code, 'event %s has no performance table' % code, None))
            continue
        is_high = code in high
        prev = None
        for pts, perf in p2p:
            n_cells += 1
            try:
                d = Decimal(perf)
            except (InvalidOperation, TypeError, ValueError):
                out.append(('value', code, 'table cell %s[%s] = %r is not a decimal number' % (code, pts, perf), perf))
                prev = None
                continue
            if prev is not None:
                worse = d < prev[1] if is_high else d > prev[1]
                if worse:
                    out.append(('order', code, 'column %s is not ordered: %s points need %s but %s points need %s (%s)' % (
                        code, prev[0], prev[1], pts, d, 'more points for a shorter mark' if is_high else 'more points for a slower time'),
                        {'points': [prev[0], pts], 'marks': [str(prev[1]), str(d)]}))
                if pts <= prev[0]:
                    out.append(('order', code, 'points column of %s does not increase at %s' % (code, pts), pts))
            prev = (pts, d)
        inc = e.get('increment')
        incp = e.get('incpoints')
        if incp != 'n/a':
            try:
                ip = int(incp)
                if ip < 0:
                    out.append(('increment', code, 'incpoints of %s is negative (%s): marks beyond the table lose points' % (code, incp), incp))
            except (TypeError, ValueError):
                out.append(('increment', code, 'incpoints of %s is %r' % (code, incp), incp))
            if inc is None:
                if not is_high:
                    out.append(('increment', code, 'low-scoring event %s has points per increment but no increment' % code, None))
            else:
                try:
                    if Decimal(str(inc)) <= 0:
                        out.append(('increment', code, 'increment of %s is %s, not positive' % (code, inc), inc))
                except InvalidOperation:
                    out.append(('increment', code, 'increment of %s is %r' % (code, inc), inc))
    return out, n_cells, db, high


def sportshall_conversions(repo, db):
    """unit conversions of load_data compared with the raw literals: [(code, message, witness)]"""
    raw = repo.const(SPORTSHALL, 'RAWDATA')
    by_col = list(zip(*raw))
    keys = by_col[0]
    out = []
    n = 0
    for col in by_col[1:]:
        d = dict(zip(keys, col))
        code = d['code']
        e = db.get(code)
        if e is None:
            out.append((code, 'RAWDATA column %s is missing from the loaded table' % code, None))
            continue
        units = str(d.get('units', '')).strip().lower()
        conv = dict(e['perf2points'])
        for pts in range(1, 81):
            cell = d.get(str(pts))
            if cell is None or cell == '-':
                continue
            n += 1
            got = conv.get(pts)
            try:
                want = Decimal(cell) / 100 if code == 'SHJ' else Decimal(cell)
                ok = got is not None and Decimal(got) == want
            except InvalidOperation:
                ok = False
                want = None
            if not ok:
                out.append((code, 'load_data turns the %s cell for %d points (%r%s) into %r; the value is %s' % (
                    code, pts, cell, ' cm' if code == 'SHJ' else '', got, want), {'points': pts, 'raw': cell, 'loaded': got}))
        inct = d.get('increment')
        if isinstance(inct, str) and (inct.endswith('cm') or inct.endswith('sec')):
            want = Decimal(inct[:-2]) / 100 if inct.endswith('cm') else Decimal(inct[:-3])
            got = e.get('increment')
            try:
                ok = got is not None and abs(Decimal(str(got)) - want) < Decimal('1e-12')
            except InvalidOperation:
                ok = False
            if not ok:
                out.append((code, 'increment %r of %s is loaded as %r; the value is %s' % (inct, code, got, want), inct))
    return out, n


def bulgarian_problems(repo):
    scores = repo.const(BULGARIAN, 'scores')
    out = []
    n_cells = 0
    for key, t in sorted(scores.items()):
        if not isinstance(t, dict) or 'min' not in t or 'max' not in t:
            out.append(('shape', key, 'table %s has no min/max' % key, None))
            continue
        lo, hi = t['min'], t['max']
        step = 1 if hi >= lo else -1
        prev = None
        missing = []
        for k in range(lo, hi + step, step):
            if k not in t:
                missing.append(k)
                continue
            v = t[k]
            n_cells += 1
            if not isinstance(v, int) or isinstance(v, bool) or v < 0 or v > 150:
                out.append(('bounds', key, '%s[%s] = %r is not an integer in 0..150' % (key, k, v), k))
                prev = None
                continue
            if prev is not None and v < prev[1]:
                out.append(('order', key, '%s: the better mark %s scores %d but the worse mark %s scores %d' % (key, k, v, prev[0], prev[1]),
                            {'marks': [prev[0], k], 'points': [prev[1], v]}))
            prev = (k, v)
        if missing:
            out.append(('hole', key, '%s has no entry for %d marks between min and max, e.g. %s: KeyError inside the tabulated range' % (
                key, len(missing), missing[:3]), missing[:5]))
        extra = [k for k in t if isinstance(k, int) and not (min(lo, hi) <= k <= max(lo, hi))]
        if extra:
            out.append(('dead', key, '%s has %d entries outside min..max (never reached), e.g. %s' % (key, len(extra), extra[:3]), extra[:3]))
    return out, n_cells, scores


def bulgarian_clamps(repo):
    """[(message)] orientation of the clamps of score() against the min/max convention of the tables"""
    mod = repo.module(BULGARIAN)
    fn = mod.func('score')
    scores = repo.const(BULGARIAN, 'scores')
    out = []
    arms = []
    for n in ast.walk(fn):
        if isinstance(n, ast.If) and isinstance(n.test, ast.Compare) and isinstance(n.test.ops[0], ast.In) \
                and ast.unparse(n.test.left) == fn.args.args[2].arg and isinstance(n.test.comparators[0], (ast.List, ast.Tuple)):
            evs = [x.value for x in n.test.comparators[0].elts if isinstance(x, ast.Constant)]
            inner = [s for s in n.body if isinstance(s, ast.If)]
            if inner:
                arms.append((evs, inner[0], n))
    if len(arms) < 2:
        raise AnalysisError('bulgarian score(): clamp arms not found')
    # names by definition: the table's min / max and the integer mark
    mn = mx = None
    for n in ast.walk(fn):
        if isinstance(n, ast.Assign) and len(n.targets) == 1 and isinstance(n.targets[0], ast.Name) and isinstance(n.value, ast.Subscript) \
                and isinstance(n.value.slice, ast.Constant):
            if n.value.slice.value == 'min':
                mn = n.targets[0].id
            if n.value.slice.value == 'max':
                mx = n.targets[0].id
    if mn is None or mx is None:
        raise AnalysisError('bulgarian score(): min / max of the table are not bound to names')
    for evs, chain, node in arms:
        # orientation of the tables of these events
        kinds = set()
        for key, t in scores.items():
            for ev in evs:
                if key.endswith(ev) and key[:-len(ev)][-1:] in 'MFX' and isinstance(t, dict) and 'min' in t:
                    kinds.add('up' if t['max'] >= t['min'] else 'down')
        if len(kinds) != 1:
            out.append('events %s mix tables of both orientations (%s)' % (evs, sorted(kinds)))
            continue
        kind = kinds.pop()
        t1 = chain.test
        r1 = chain.body[-1]
        c2 = chain.orelse[0] if chain.orelse and isinstance(chain.orelse[0], ast.If) else None
        if not (isinstance(t1, ast.Compare) and c2 is not None and isinstance(c2.test, ast.Compare)):
            out.append('clamp chain of %s not understood' % evs)
            continue

        def parts(t):
            return ast.unparse(t.left), type(t.ops[0]).__name__, ast.unparse(t.comparators[0])
        (l1, o1, m1), (l2, o2, m2) = parts(t1), parts(c2.test)
        z = ast.unparse(r1.value) if isinstance(r1, ast.Return) else '?'
        top = ast.unparse(c2.body[-1].value) if isinstance(c2.body[-1], ast.Return) else '?'
        want1 = ('Lt', mn) if kind == 'up' else ('Gt', mn)
        want2 = ('Gt', mx) if kind == 'up' else ('Lt', mx)
        if (o1, m1) != want1 or z != '0' or (o2, m2) != want2 or top != '150':
            out.append('clamps for %s are `%s -> %s`, `%s -> %s`; with tables running from min=%s to max=%s they must be '
                       '`mark %s min -> 0`, `mark %s max -> 150`' % (
                           evs, ast.unparse(t1), z, ast.unparse(c2.test), top, 'worst', 'best',
                           '<' if kind == 'up' else '>', '>' if kind == 'up' else '<'))
    return out


def bulgarian_decision_table(repo):
    """score() folded (never imported) on the complete tabulated domain: every tabulated mark of every table, the first mark beyond
    each end and a far mark beyond each end.  [(key, message, witness)], cells"""
    env, folder = repo.folded(BULGARIAN)
    fc = env.get('score')
    scores = env.get('scores')
    if not isinstance(fc, fold.FuncConst) or not isinstance(scores, dict):
        raise AnalysisError('bulgarian score() / scores not foldable')
    import re as _re
    out = []
    n = 0
    for key, t in sorted(scores.items()):
        m = _re.fullmatch(r'(U\d+)([MFX])(.+)', key)
        if not m or not isinstance(t, dict) or 'min' not in t or 'max' not in t:
            continue
        ag, g, ev = m.groups()
        lo, hi = t['min'], t['max']                # worst, best
        step = 1 if hi >= lo else -1
        F = fold.Folder(importer=folder.importer)

        def sc(k):
            try:
                return F.call(fc, [ag, g, ev, k / 100.0], {})
            except fold._Raise:
                return '<raises>'
            except fold.Unfoldable as e:
                raise AnalysisError('bulgarian score() left the foldable fragment: %s' % e)
            except Exception as e:
                return '<raises %s>' % type(e).__name__
        cells = [(k, t[k]) for k in range(lo, hi + step, step) if k in t]
        cells += [(lo - step, 0), (lo - 50 * step, 0), (hi + step, 150), (hi + 50 * step, 150)]
        bad = []
        for k, want in cells:
            if k <= 0:
                continue
            n += 1
            got = sc(k)
            if got != want:
                bad.append((k, got, want))
        if bad:
            k, got, want = bad[0]
            where = 'beyond the worst tabulated mark' if (k - lo) * step < 0 else 'beyond the best tabulated mark' if (k - hi) * step > 0 else 'inside the table'
            out.append((key, 'score(%r, %r, %r, %s) gives %r; the table says %r (%s; %d cells of this table differ)' % (
                ag, g, ev, k / 100.0, got, want, where, len(bad)), {'table': key, 'mark': k / 100.0, 'got': got, 'want': want}))
    return out, n

