// parse-only helper: prints the ESTree (JSON) of the given files using the acorn parser bundled with node.
// The repository's JavaScript is never evaluated.
const acorn = require('internal/deps/acorn/acorn/dist/acorn');
const fs = require('fs');
const out = {};
for (const f of process.argv.slice(2)) {
  const src = fs.readFileSync(f, 'utf8');
  out[f] = acorn.parse(src, {ecmaVersion: 2022, sourceType: 'module', locations: true});
}
process.stdout.write(JSON.stringify(out, (k, v) => (typeof v === 'bigint' ? v.toString() : v)));
