"""statement-level CFG for the Python subset used in athlib."""
import ast


class Node:
    __slots__ = ('id', 'kind', 'ast', 'succ', 'label')

    def __init__(self, id, kind, astnode=None, label=''):
        self.id = id; self.kind = kind; self.ast = astnode; self.succ = []; self.label = label

    def __repr__(self):
        ln = getattr(self.ast, 'lineno', '?')
        return '<%d %s L%s>' % (self.id, self.kind, ln)


class CFG:
    """kinds: entry, stmt, test (succ labelled 'T'/'F'), iter (for header: 'T' = next item, 'F' = exhausted),
    return, raise, exit_return, exit_raise, join"""

    def __init__(self, fn):
        self.fn = fn
        self.nodes = []
        self.entry = self.new('entry')
        self.exit_return = self.new('exit_return')
        self.exit_raise = self.new('exit_raise')
        self.loop_stack = []
        self.try_stack = []
        last = self.block(fn.body, [(self.entry, '')])
        for n, lab in last:
            self.edge(n, self.exit_return, lab)   # implicit return None

    def new(self, kind, astnode=None):
        n = Node(len(self.nodes), kind, astnode); self.nodes.append(n); return n

    def edge(self, a, b, lab=''):
        a.succ.append((b, lab))

    def connect(self, preds, n):
        for p, lab in preds: self.edge(p, n, lab)

    def block(self, stmts, preds):
        for st in stmts:
            preds = self.stmt(st, preds)
        return preds

    def stmt(self, st, preds):
        if isinstance(st, ast.If):
            t = self.new('test', st.test); self.connect(preds, t)
            out = self.block(st.body, [(t, 'T')])
            out += self.block(st.orelse, [(t, 'F')]) if st.orelse else [(t, 'F')]
            return out
        if isinstance(st, ast.While):
            t = self.new('test', st.test); self.connect(preds, t)
            brk = []
            self.loop_stack.append((t, brk))
            body_out = self.block(st.body, [(t, 'T')])
            self.loop_stack.pop()
            self.connect(body_out, t)
            const_true = isinstance(st.test, ast.Constant) and bool(st.test.value)
            out = [] if const_true else [(t, 'F')]
            if st.orelse: out = self.block(st.orelse, out)
            return out + brk
        if isinstance(st, ast.For):
            t = self.new('iter', st); self.connect(preds, t)
            brk = []
            self.loop_stack.append((t, brk))
            body_out = self.block(st.body, [(t, 'T')])
            self.loop_stack.pop()
            self.connect(body_out, t)
            out = [(t, 'F')]
            if st.orelse: out = self.block(st.orelse, out)
            return out + brk
        if isinstance(st, ast.Break):
            self.loop_stack[-1][1].extend(preds); return []
        if isinstance(st, ast.Continue):
            self.connect(preds, self.loop_stack[-1][0]); return []
        if isinstance(st, ast.Return):
            n = self.new('return', st); self.connect(preds, n); self.edge(n, self.exit_return); return []
        if isinstance(st, ast.Raise):
            n = self.new('raise', st); self.connect(preds, n)
            self.edge(n, self.handler_target(), 'raise'); return []
        if isinstance(st, ast.Try):
            # body; explicit raises inside go to first handler (approximation: handlers catch everything they name)
            hnodes = []
            for h in st.handlers:
                hn = self.new('handler', h); hnodes.append(hn)
            self.try_stack.append(hnodes)
            out = self.block(st.body, preds)
            self.try_stack.pop()
            if st.orelse: out = self.block(st.orelse, out)
            for hn, h in zip(hnodes, st.handlers):
                out += self.block(h.body, [(hn, '')])
            if st.finalbody: out = self.block(st.finalbody, out)
            return out
        if isinstance(st, ast.With):
            n = self.new('stmt', st); self.connect(preds, n)
            return self.block(st.body, [(n, '')])
        if isinstance(st, (ast.FunctionDef, ast.ClassDef)):
            n = self.new('stmt', st); self.connect(preds, n); return [(n, '')]
        n = self.new('stmt', st); self.connect(preds, n)
        return [(n, '')]

    def handler_target(self):
        # explicit raise: nearest enclosing try handlers (all of them, conservatively) else function exit
        if self.try_stack:
            j = self.new('join')
            for hn in self.try_stack[-1]: self.edge(j, hn)
            return j
        return self.exit_raise


def reaching_defs(fn, name, use_node, _cache={}):
    """assignment statements to `name` (Assign/AugAssign/For/With targets) that reach the statement containing use_node;
    contains None if the function entry reaches it without a definition (parameter or undefined)"""
    key = id(fn)
    if key not in _cache:
        g = CFG(fn)
        preds = {}
        for nd in g.nodes:
            for s_, _l in nd.succ:
                preds.setdefault(s_.id, []).append(nd)
        _cache[key] = (g, preds, fn)
    g, preds, _ = _cache[key]
    st = use_node
    while not isinstance(st, ast.stmt):
        st = st._parent
    # the CFG node of the statement: for compound statements the test / iter node carries the expression
    start = [nd for nd in g.nodes if nd.ast is st or (nd.kind == 'test' and any(x is use_node for x in ast.walk(nd.ast)))]
    if not start:
        # statement nested in a compound one that the CFG keeps whole (with / def): climb
        p = getattr(st, '_parent', None)
        while p is not None and not start:
            start = [nd for nd in g.nodes if nd.ast is p]
            p = getattr(p, '_parent', None)

    def assigns(nd):
        a = nd.ast
        if nd.kind == 'stmt' and isinstance(a, (ast.Assign, ast.AugAssign, ast.AnnAssign)):
            tg = a.targets if isinstance(a, ast.Assign) else [a.target]
            return any(isinstance(x, ast.Name) and x.id == name for t in tg for x in ast.walk(t))
        if nd.kind == 'iter':
            return any(isinstance(x, ast.Name) and x.id == name for x in ast.walk(a.target))
        return False
    out = set()
    seen = set()
    work = []
    for nd in start:
        work += preds.get(nd.id, [])
    while work:
        nd = work.pop()
        if nd.id in seen:
            continue
        seen.add(nd.id)
        if assigns(nd):
            out.add(nd.ast)
            continue
        if nd.kind == 'entry':
            out.add(None)
            continue
        work += preds.get(nd.id, [])
    return out

