"""E1 (call graph part): resolved call graph across athlib modules with receiver kinds.

Functions are keyed (module rel path, qualname).  Calls are resolved through: module-local functions, intra-package
imports (incl. re-exports in athlib/__init__.py and aliases `import x as y`), constructor calls of repo classes,
methods on typed receivers (self, locals bound to a constructor call or to a module-level instance, `a and b or c`
selections between module-level instances), single inheritance, and getattr(self, <prefix>+'_suffix') dispatch to all
methods with that suffix.  Each edge to a method carries the receiver kind: 'shared' (a module-level instance or a
receiver that is itself shared) or 'percall' (an instance created in the calling function that does not escape).
"""
import ast

from .core import AnalysisError
from .src import call_name


class Graph:
    def __init__(self, repo, rels):
        self.repo = repo
        self.mods = {r: repo.module(r) for r in rels}
        self.classes = {}          # class name -> (rel, ClassDef)
        self.bases = {}
        for rel, m in self.mods.items():
            for cn, c in m.classes.items():
                if '.' not in cn:
                    self.classes[cn] = (rel, c)
                    self.bases[cn] = [b.id for b in c.bases if isinstance(b, ast.Name)]
        self.imports = {}          # rel -> {local name: (target rel, name)}
        self.instances = {}        # rel -> {module-level name: class name}
        for rel, m in self.mods.items():
            self.imports[rel] = self._imports(rel, m)
        for rel, m in self.mods.items():
            self.instances[rel] = self._instances(rel, m)

    # ---- module facts
    def _imports(self, rel, m):
        out = {}
        for st in ast.walk(m.tree):
            if isinstance(st, ast.ImportFrom):
                target = self.repo.resolve_module(rel, st.level, st.module)
                if target is None:
                    continue
                for a in st.names:
                    out[a.asname or a.name] = (target, a.name)
        return out

    def resolve_name(self, rel, name, depth=0):
        """(target rel, qualname) of a function/class a module-level name denotes, following imports"""
        if depth > 5:
            return None
        m = self.mods.get(rel)
        if m is None:
            try:
                m = self.repo.module(rel)
                self.mods[rel] = m
                self.imports[rel] = self._imports(rel, m)
                self.instances[rel] = {}
            except AnalysisError:
                return None
        if name in m.functions or name in m.classes:
            return (rel, name)
        # tuple-unpacking re-export: AgeGrader, AthlonsAgeGrader = __wma_delay__()
        for st in m.tree.body:
            if isinstance(st, ast.Assign) and isinstance(st.targets[0], ast.Tuple) and isinstance(st.value, ast.Call) \
                    and isinstance(st.value.func, ast.Name) and st.value.func.id in m.functions:
                names = [e.id for e in st.targets[0].elts if isinstance(e, ast.Name)]
                if name in names:
                    f = m.functions[st.value.func.id]
                    # the helper imports the names and returns them in order
                    for n in ast.walk(f):
                        if isinstance(n, ast.ImportFrom):
                            target = self.repo.resolve_module(rel, n.level, n.module)
                            for a in n.names:
                                if (a.asname or a.name) == name and target:
                                    return self.resolve_name(target, a.name, depth + 1)
        if name in self.imports.get(rel, {}):
            t, n = self.imports[rel][name]
            return self.resolve_name(t, n, depth + 1)
        return None

    def _instances(self, rel, m):
        out = {}
        for st in m.tree.body:
            if isinstance(st, ast.Assign) and isinstance(st.value, ast.Call) and isinstance(st.value.func, ast.Name):
                r = self.resolve_name(rel, st.value.func.id)
                if r and r[1] in self.classes:
                    for t in st.targets:
                        for x in ast.walk(t):
                            if isinstance(x, ast.Name):
                                out[x.id] = r[1]
        return out

    def method(self, cls, name):
        """(rel, qualname, defining class) through single inheritance"""
        seen = set()
        c = cls
        while c and c not in seen:
            seen.add(c)
            if c in self.classes:
                rel, node = self.classes[c]
                for f in node.body:
                    if isinstance(f, ast.FunctionDef) and f.name == name:
                        return (rel, '%s.%s' % (c, name), c)
                c = (self.bases.get(c) or [None])[0]
            else:
                break
        return None

    def methods_with_suffix(self, cls, suffix):
        out = []
        seen = set()
        c = cls
        while c and c not in seen and c in self.classes:
            seen.add(c)
            rel, node = self.classes[c]
            for f in node.body:
                if isinstance(f, ast.FunctionDef) and f.name.endswith(suffix):
                    out.append((rel, '%s.%s' % (c, f.name), c))
            c = (self.bases.get(c) or [None])[0]
        return out

    # ---- per function
    def func_node(self, key):
        rel, q = key
        return self.mods[rel].functions[q]

    def local_types(self, key, recv_cls):
        """{local name: (class, kind)} kind 'percall' | 'shared'"""
        rel, q = key
        fn = self.func_node(key)
        out = {}
        if recv_cls:
            out['self'] = (recv_cls, None)        # kind supplied by the caller
        escaping = set()
        for n in ast.walk(fn):
            if isinstance(n, ast.Return) and isinstance(n.value, ast.Name):
                escaping.add(n.value.id)
            if isinstance(n, ast.Assign):
                for t in n.targets:
                    if isinstance(t, (ast.Attribute, ast.Subscript)) and isinstance(n.value, ast.Name):
                        escaping.add(n.value.id)
            if isinstance(n, ast.Global):
                escaping.update(n.names)
        # module-level containers whose elements are instances:  D[k] = Cls(...)  anywhere in the module makes every value read
        # back from D (D[k], D.get(k), chained assignment) a shared instance
        m = self.mods[rel]
        mod_names = {t.id for st in m.tree.body if isinstance(st, (ast.Assign, ast.AnnAssign))
                     for t in (st.targets if isinstance(st, ast.Assign) else [st.target]) if isinstance(t, ast.Name)}
        elem_cls = {}
        for n in ast.walk(m.tree):
            if isinstance(n, ast.Assign) and isinstance(n.value, ast.Call) and isinstance(n.value.func, ast.Name):
                r = self.resolve_name(rel, n.value.func.id)
                if r and r[1] in self.classes:
                    for t in n.targets:
                        if isinstance(t, ast.Subscript) and isinstance(t.value, ast.Name) and t.value.id in mod_names:
                            elem_cls[t.value.id] = r[1]
            if isinstance(n, ast.Call) and isinstance(n.func, ast.Attribute) and n.func.attr == 'setdefault' and isinstance(n.func.value, ast.Name) \
                    and n.func.value.id in mod_names and len(n.args) == 2 and isinstance(n.args[1], ast.Call) and isinstance(n.args[1].func, ast.Name):
                r = self.resolve_name(rel, n.args[1].func.id)
                if r and r[1] in self.classes:
                    elem_cls[n.func.value.id] = r[1]
        for n in ast.walk(fn):
            if isinstance(n, ast.Assign) and elem_cls:
                v = n.value
                src = None
                if isinstance(v, ast.Subscript) and isinstance(v.value, ast.Name) and v.value.id in elem_cls:
                    src = v.value.id
                elif isinstance(v, ast.Call) and isinstance(v.func, ast.Attribute) and v.func.attr in ('get', 'setdefault', 'pop') \
                        and isinstance(v.func.value, ast.Name) and v.func.value.id in elem_cls:
                    src = v.func.value.id
                elif any(isinstance(t, ast.Subscript) and isinstance(t.value, ast.Name) and t.value.id in elem_cls for t in n.targets):
                    src = [t.value.id for t in n.targets if isinstance(t, ast.Subscript) and isinstance(t.value, ast.Name) and t.value.id in elem_cls][0]
                if src:
                    for t in n.targets:
                        if isinstance(t, ast.Name):
                            out[t.id] = (elem_cls[src], 'shared')
        for n in ast.walk(fn):
            if isinstance(n, ast.Assign) and len(n.targets) == 1 and isinstance(n.targets[0], ast.Name):
                v = n.value
                tn = n.targets[0].id
                if tn in out and out[tn][1] == 'shared' and tn != 'self':
                    continue
                if isinstance(v, ast.Call) and isinstance(v.func, ast.Name):
                    r = self.resolve_name(rel, v.func.id)
                    if r and r[1] in self.classes:
                        out[tn] = (r[1], 'shared' if tn in escaping else 'percall')
                # selection between module-level instances:  (cond) and a or b
                names = [x.id for x in ast.walk(v) if isinstance(x, ast.Name)]
                insts = [self.instances[rel][x] for x in names if x in self.instances.get(rel, {})]
                if insts and isinstance(v, (ast.BoolOp, ast.IfExp, ast.Name)):
                    out[tn] = (insts[0], 'shared')
        return out

    def callees(self, key, recv_cls=None, recv_kind=None):
        """[(callee key, callee receiver class, callee receiver kind, call node)]"""
        rel, q = key
        fn = self.func_node(key)
        types = self.local_types(key, recv_cls)
        out = []
        for c in ast.walk(fn):
            if not isinstance(c, ast.Call):
                continue
            f = c.func
            if isinstance(f, ast.Name):
                r = self.resolve_name(rel, f.id)
                if r is None:
                    # getattr(self, self.kind + '_points', default)(...) is handled via Attribute below
                    continue
                if r[1] in self.classes:
                    init = self.method(r[1], '__init__')
                    if init:
                        out.append(((init[0], init[1]), r[1], 'percall', c))
                else:
                    out.append((r, None, None, c))
            elif isinstance(f, ast.Attribute):
                recv = f.value
                cls = kind = None
                if isinstance(recv, ast.Name):
                    if recv.id in types:
                        cls, kind = types[recv.id]
                        if recv.id == 'self':
                            kind = recv_kind
                    elif recv.id in self.instances.get(rel, {}):
                        cls, kind = self.instances[rel][recv.id], 'shared'
                    elif recv.id in self.imports.get(rel, {}):
                        # module alias or imported instance
                        t, n = self.imports[rel][recv.id]
                        if n in self.instances.get(t, {}):
                            cls, kind = self.instances[t][n], 'shared'
                if cls:
                    m = self.method(cls, f.attr)
                    if m:
                        out.append(((m[0], m[1]), cls, kind, c))
        # getattr(self, <expr ending in constant suffix>) dispatch
        for n in ast.walk(fn):
            if isinstance(n, ast.Call) and isinstance(n.func, ast.Name) and n.func.id == 'getattr' and len(n.args) >= 2 \
                    and isinstance(n.args[0], ast.Name) and n.args[0].id == 'self' and recv_cls:
                a = n.args[1]
                suffix = None
                if isinstance(a, ast.BinOp) and isinstance(a.op, ast.Add) and isinstance(a.right, ast.Constant):
                    suffix = a.right.value
                elif isinstance(a, ast.Constant):
                    suffix = a.value
                if suffix:
                    for m in self.methods_with_suffix(recv_cls, suffix):
                        out.append(((m[0], m[1]), recv_cls, recv_kind, n))
                # default argument that is a bound method
                if len(n.args) == 3 and isinstance(n.args[2], ast.Attribute) and isinstance(n.args[2].value, ast.Name) \
                        and n.args[2].value.id == 'self':
                    m = self.method(recv_cls, n.args[2].attr)
                    if m:
                        out.append(((m[0], m[1]), recv_cls, recv_kind, n))
        # property reads on self
        if recv_cls:
            for n in ast.walk(fn):
                if isinstance(n, ast.Attribute) and isinstance(n.value, ast.Name) and n.value.id == 'self' and isinstance(n.ctx, ast.Load):
                    m = self.method(recv_cls, n.attr)
                    if m:
                        node = self.mods[m[0]].functions[m[1]]
                        if any(isinstance(d, ast.Name) and d.id == 'property' for d in node.decorator_list):
                            out.append(((m[0], m[1]), recv_cls, recv_kind, n))
        return out

    def reach(self, entries):
        """{(key, recv_cls, recv_kind)} reachable from entry keys; also parent links for paths"""
        seen = {}
        work = [(k, None, None) for k in entries]
        for w in work:
            seen[w] = None
        while work:
            cur = work.pop()
            key, rc, rk = cur
            for (ck, ccls, ckind, node) in self.callees(key, rc, rk):
                nxt = (ck, ccls, ckind)
                if nxt not in seen:
                    seen[nxt] = (cur, getattr(node, 'lineno', None))
                    work.append(nxt)
        return seen

    def path_to(self, seen, node):
        out = []
        cur = node
        while cur is not None:
            out.append('%s::%s' % cur[0] + (('[%s receiver]' % cur[2]) if cur[2] else ''))
            p = seen.get(cur)
            cur = p[0] if p else None
        return ' <- '.join(out)
